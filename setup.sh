#!/bin/sh
# Offline setup after a fresh restore: generate the oracle tables from the vendored ABNF (asserts the
# 183-state minimal automaton) and pre-compile the harness objects for every build configuration.
# The library itself is never cached: every check recompiles /repo/src/*.c from the current tree.
cd "$(dirname "$0")" || exit 2
mkdir -p gen evidence
python3 oracle/abnf2dfa.py oracle/rfc3986.abnf gen/dfa.h || exit 2
if [ -f /repo/doc/rfc3986_grammar_only.txt ]; then
  cmp -s oracle/rfc3986.abnf /repo/doc/rfc3986_grammar_only.txt || echo "note: vendored ABNF differs from /repo/doc/rfc3986_grammar_only.txt (informational; the oracle uses the vendored copy)"
fi
rc=0
for cfg in fast asan tsan so; do ./check build $cfg > /dev/null || rc=2; done
# tool self test: the sanitizers must actually fire in this sandbox
T=$(mktemp -d /tmp/vf-setup.XXXXXX)
printf '#include <stdlib.h>\nint main(void){char*p=malloc(4);p[4]=1;return p[0];}\n' > $T/o.c
clang -fsanitize=address -o $T/o $T/o.c 2>/dev/null && { ASAN_OPTIONS=abort_on_error=0 $T/o >/dev/null 2>&1 && { echo "setup: ASan did not fire"; rc=2; }; }
rm -rf $T
[ $rc -eq 0 ] && echo "setup ok"
exit $rc
