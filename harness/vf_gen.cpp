#include "vf_gen.hpp"
#include "../gen/dfa.h"

namespace vf {

// ---------------------------------------------------------------- class tables
static std::vector<std::vector<unsigned char>>& class_members() {
    static std::vector<std::vector<unsigned char>> m;
    if (m.empty()) { m.resize(URIREF_NCLASSES); for (int b = 0; b < 256; b++) m[uriref_class[b]].push_back((unsigned char)b); }
    return m;
}
Str dfa_class_reps() { Str s; for (int c = 0; c < URIREF_NCLASSES; c++) s.push_back((char)uriref_reps[c]); return s; }
unsigned char dfa_random_member_of_class_of(unsigned char rep, Rng& rng) {
    auto& v = class_members()[uriref_class[rep]];
    return v[rng.below((uint32_t)v.size())];
}

// ---------------------------------------------------------------- G-COVER
uint64_t gcover_count() { return (uint64_t)URIREF_BIG_NSTATES * 256 * 4; }
static Str big_access(unsigned q) { return uriref_big_access[q] ? Str(uriref_big_access[q], uriref_big_access_len[q]) : Str(); }
static Str big_completion(unsigned q) { return uriref_big_completion[q] ? Str(uriref_big_completion[q], uriref_big_completion_len[q]) : Str(); }
// a longer access string: follow the BFS access string but take every self-loop / short cycle a few times
static Str pumped_access(unsigned q, Rng& rng) {
    Str acc = big_access(q), out; unsigned st = 0;
    for (size_t i = 0; i <= acc.size(); i++) {
        // pump self loops at st
        int pumps = rng.range(0, 3);
        for (int k = 0; k < pumps; k++) {
            std::vector<unsigned> loops;
            for (unsigned c = 1; c < URIREF_NCLASSES; c++) if (uriref_big_trans[st][c] == st) loops.push_back(c);
            if (loops.empty()) break;
            unsigned c = loops[rng.below((uint32_t)loops.size())];
            auto& mem = class_members()[c]; out.push_back((char)mem[rng.below((uint32_t)mem.size())]);
        }
        if (i < acc.size()) { out.push_back(acc[i]); st = uriref_big_trans[st][uriref_class[(unsigned char)acc[i]]]; }
    }
    return out;
}
Str gcover_case(uint64_t idx, Rng& rng) {
    unsigned variant = (unsigned)(idx % 4); idx /= 4;
    unsigned c = (unsigned)(idx % 256); unsigned q = (unsigned)(idx / 256);
    if (q >= URIREF_BIG_NSTATES || (q != 0 && !uriref_big_access[q])) return Str(1, (char)c);
    if (uriref_big_dead[q]) return Str(1, (char)c);
    Str s = variant == 2 ? pumped_access(q, rng) : big_access(q);
    s.push_back((char)c);
    unsigned t = uriref_big_trans[q][uriref_class[c]];
    if (variant == 3) {
        // the text goes on after the character, also after an offending one: the recursive-descent parser does not stop
        // where the automaton dies (e.g. dec-octet errors inside an IPv6 literal are only noticed at the next '.' or ']')
        s += big_completion(uriref_big_dead[t] ? q : t);
        if (rng.coin()) s += rng.coin() ? "/p?q#f" : "]:80/x";
        return s;
    }
    if (variant >= 1 && !uriref_big_dead[t]) s += big_completion(t);
    return s;
}

// ---------------------------------------------------------------- G-ENUM
uint64_t genum_count(size_t k, size_t maxlen) { uint64_t t = 0, p = 1; for (size_t l = 0; l <= maxlen; l++) { t += p; p *= k; } return t; }
Str genum_case(uint64_t idx, const Str& alphabet, size_t maxlen) {
    size_t k = alphabet.size(); uint64_t p = 1; size_t l = 0;
    while (l <= maxlen && idx >= p) { idx -= p; p *= k; l++; }
    Str s(l, '\0');
    for (size_t i = 0; i < l; i++) { s[l - 1 - i] = alphabet[idx % k]; idx /= k; }
    return s;
}

// ---------------------------------------------------------------- G-WALK
Str gwalk(Rng& rng, size_t maxlen, bool complete) {
    Str s; unsigned st = 0;
    size_t target = 1 + rng.below((uint32_t)maxlen);
    // bias: structural characters (delimiters, brackets, percent, dots, digits) are taken more often than their share of
    // the alphabet, so that walks visit the authority / IP-literal / dec-octet / percent sub-automata and not only pchar loops
    static const char structural[] = ":/?#@[]%.";
    unsigned cls_lb = uriref_class[(unsigned char)'['];
    int style = (int)rng.below(4);      // 0: uniform over live classes, 1-3: structure-biased
    for (size_t i = 0; i < target; i++) {
        unsigned live[URIREF_NCLASSES]; unsigned nl = 0; unsigned hot[16]; unsigned nh = 0; bool canLb = false;
        for (unsigned c = 1; c < URIREF_NCLASSES; c++) if (!uriref_dead[uriref_trans[st][c]]) {
            live[nl++] = c; if (c == cls_lb) canLb = true;
            for (const char* p = structural; *p; p++) if (uriref_class[(unsigned char)*p] == c && nh < 16) { hot[nh++] = c; break; }
        }
        if (nl == 0) break;
        unsigned c;
        if (canLb && rng.chance(2, 3)) c = cls_lb;
        else if (style && nh && rng.chance(1, 3)) c = hot[rng.below(nh)];
        else c = live[rng.below(nl)];
        auto& mem = class_members()[c];
        // within a class prefer digits/hex letters/dots (counters of the IPv6 / dec-octet scanners) half of the time
        unsigned char ch = mem[rng.below((uint32_t)mem.size())];
        if (style >= 2 && rng.coin()) { static const char pref[] = "0125aAfF.:"; for (int t = 0; t < 4; t++) { unsigned char q = (unsigned char)pref[rng.below(sizeof pref - 1)]; if (uriref_class[q] == c) { ch = q; break; } } }
        s.push_back((char)ch);
        st = uriref_trans[st][c];
        if (uriref_accept[st] && rng.chance(1, 40)) break;
    }
    if (complete && !uriref_accept[st] && uriref_completion[st]) s.append(uriref_completion[st], uriref_completion_len[st]);
    return s;
}

// ---------------------------------------------------------------- mutations
Str mutate(Rng& rng, const Str& s0, int nmut) {
    static const char interesting[] = ":/?#[]@%.0123456789aAfFvV;=+-~!$&'()*,_ \x7f\x80\xff\x01\\^`{|}<>\"";
    Str s = s0;
    for (int m = 0; m < nmut; m++) {
        int op = rng.below(5);
        size_t pos = s.empty() ? 0 : rng.below((uint32_t)s.size() + (op == 1 ? 1 : 0));
        char c = rng.chance(3, 4) ? interesting[rng.below(sizeof interesting - 1)] : (char)rng.range(1, 255);
        switch (op) {
        case 0: if (!s.empty()) s[pos] = c; break;
        case 1: s.insert(s.begin() + (long)pos, c); break;
        case 2: if (!s.empty()) s.erase(pos, 1); break;
        case 3: if (!s.empty()) s.resize(pos); break;
        case 4: if (!s.empty()) { size_t q = rng.below((uint32_t)s.size()); s.insert(pos, s.substr(q, rng.below(6))); } break;
        }
    }
    return s;
}

// ---------------------------------------------------------------- G-URI
static const char* const SCHEMES[] = {"a", "http", "HTTP", "hTtP", "a+b-c.d", "x1", "file", "A", "b", "z9+",
    // words that mean something to somebody (a leniency or legacy-notation special case hangs on one of them)
    "URL", "url", "Url", "FILE", "File", "https", "ftp", "mailto", "urn", "data", "ws", "javascript", "localhost", "about", "view-source", "jar", "blob", "s3", "git+ssh", "uri", "URI", "c", "C", "d"};
static const char* const USERS[] = {"", "u", "user:pw", "a:1", "%41%7e", "U%3a", "a;b=c", "1", ":", "%7Euser", "%c3%a4"};
static const char* const REGNAMES[] = {"localhost", "LOCALHOST", "localhost.", "example.com.", "0", "0x7f.0.0.1", "1.2.3.4.", "xn--bcher-kva.example", "-", "a_b", "", "h", "example.com", "EXAMPLE.COM", "ex%41mple", "%7Ehost", "h%3A", "H%3a", "a.b-c_d~e", "1.2.3.04", "256.1.1.1",
    "1.2.3", "1.2.3.4.5", "999", "01.2.3.4", "1.2.3.4a", "%c3%A4", "x%2Ey", "A%2d", "www.%45xample.org", "1.2.3.256", "a", "localhost",
    "www", "www.example.com", "WWW.Example.COM", "example.org", "127.0.0.1.", "1.2.3.%34", "%31.2.3.4", "localhost.localdomain", "a.b.c.d", "..", ".", "h.", ".h", "h..h", "xn--", "0.0.0.0.", "255.255.255.256", "1.1.1.1a", "host_name", "~", "%2e", "%2E%2E"};
static const char* const IP4S[] = {"1.2.3.4", "255.255.255.255", "0.0.0.0", "10.0.0.1", "192.168.100.249", "250.199.99.9", "127.0.0.1",
    // one address of every text length 7..15, and the octet values around the decimal-width and range boundaries
    "1.2.3.44", "1.2.33.44", "1.22.33.44", "11.22.33.44", "111.22.33.44", "111.222.33.44", "111.222.133.44", "111.222.133.144", "9.10.99.100", "199.200.249.250", "100.101.25.26", "255.0.255.0", "192.0.2.1"};
static const char* const IP6S[] = {"0000:0000:0000:0000:0000:ffff:192.0.2.1", "0000:0000:0000:0000:0000:0000:0000:0001", "FFFF:FFFF:FFFF:FFFF:FFFF:FFFF:255.255.255.255", "0000:0000:0000:0000:0000:0000:1.2.3.4", "::1", "::", "1:2:3:4:5:6:7:8", "1:2:3:4:5:6:1.2.3.4", "::ffff:1.2.3.4", "ABCD::EF01", "1::8", "1:2::7:8", "::2:3:4:5:6:7:8",
    "1:2:3:4:5:6:7::", "fe80::1", "::1.2.3.4", "1::1.2.3.4", "a:b:c:d:e:f:0:1", "0:0:0:0:0:0:0:0", "FFFF:ffff:FfFf:0:00:000:0000:1", "1:2:3:4:5::1.2.3.4", "::255.255.255.255"};
static const char* const FUTURES[] = {"v1.x", "vF.a:b", "V7.AbC", "v0.!$&'()*+,;=", "vabc.DEF", "v1.~", "v1._", "vA.a_B-c.9", "V09af.-._~", "v1.0123456789", "vf.Z_z:A_a"};
static Str gen_future(Rng& rng) {     // 'v' 1*HEXDIG '.' 1*( unreserved / sub-delims / ':' ), every legal character reachable
    static const char hx[] = "0123456789abcdefABCDEF";
    static const char cs[] = "abcdefghijklmnopqrstuvwxyzABCDEFGHIJKLMNOPQRSTUVWXYZ0123456789-._~!$&'()*+,;=:";
    Str s; s += rng.below(4) ? 'v' : 'V';
    for (int i = 0, n = rng.range(1, 3); i < n; i++) s += hx[rng.below(22)];
    s += '.';
    for (int i = 0, n = rng.range(1, 9); i < n; i++) s += cs[rng.below(sizeof cs - 1)];
    return s;
}
static const char* const PORTS[] = {"", "80", "0", "65536", "00080", "1", "443", "65535", "99999", "4294967296", "99999999999999999999", "2147483648", "8080", "21", "22", "25", "080", "0443", "65534", "65537", "2147483647", "4294967295", "0000000000000000000080"};
static const char* const SEGS[] = {"C:", "c%7C", "URL:x", "file:", "%00", ".git", "~user", "", ".", "..", "a", "b", "b:c", "%2e", "%2E", "%41", "%7E", "%7e", "%3a", "%3A", "x;y", "a=b", "@", ":", "...", ".a", "a.", "~",
    "A", "%2e%2e", ".%2E", "c%2Fd", "%2F", "a%20b", "c", "d", "%61", "a:", ":a", "%C3%A4", "%c3%a4", "-", "_", "a+b", "a,b", "!$&'()*+,;=",
    // names and adjacent pairs that real-world special cases key on
    "index.html", "index.htm", "robots.txt", ".well-known", "cgi-bin", "favicon.ico", "..;", "..;x", ";", ";v=1", "~~", "....", "a..b", "..a", "a..", "%2e.", "%25", "%2525", "%252e", "%252E%252E", "::", "a::", "=", "&", "a=b&c=d", "+", "*", "%7euser", "%7Euser",
    "localhost", "www", "80", "443", "C%3A", "c%7C", "%5C", "%00x", "x%00", "%FF", "%ff", "%80", "%7F", "%7f", "%20", "%0D%0A", "%0a"};
static const char* const DOTSEGS[] = {"", ".", "..", "a", "b", "b:c", "", ".", "..", "%41", ":", "c", "..", ".", "x:"};
static const char* const QUERIES[] = {"", "q", "a=b&c=d", "/?", "%41%3a%2f", "q?x/y", "%7e", "%7E", "a%20b", "x=%c3%a4", ":@", "?", "a+b", "a=1&a=2", "&", "=", "&&", "a=&b", "%26=%3D", "q=%2525", "..", "../x", "a=b;c=d", "%0D%0A"};
#define PICK(arr, rng) Str(arr[(rng).below((uint32_t)(sizeof(arr) / sizeof(arr[0])))])

static size_t huge_length(Rng& rng) { static const size_t H[] = {65535, 65536, 65537, 70000, 65534, 32768, 32767}; return H[rng.below(rng.chance(2, 3) ? 4 : 7)]; }
size_t special_length(Rng& rng) {
    static const size_t L[] = {1, 2, 3, 4, 5, 7, 8, 9, 15, 16, 17, 31, 32, 33, 63, 64, 65, 127, 128, 129, 254, 255, 256, 257, 258, 511, 512, 513, 1023, 1024, 1025, 4095, 4096, 4097};
    return L[rng.below(sizeof L / sizeof L[0] - (rng.chance(9, 10) ? 9 : 0))];     // the ones above 500 only rarely
}
Str gen_exact_length(Rng& rng, size_t n) {
    static const char cs[] = "abcXYZ019-._~!$&'()*+,;=";
    Str s; int style = (int)rng.below(4);
    while (s.size() < n) {
        if (style == 1 && n - s.size() >= 3 && rng.chance(1, 3)) { static const char* t[] = {"%41", "%7e", "%2F", "%c3", "%A4", "%2e", "%3A"}; s += t[rng.below(7)]; }
        else if (style == 2) s.push_back('a');
        else s.push_back(cs[rng.below(sizeof cs - 1)]);
    }
    return s;
}
Str gen_ip6(Rng& rng) {
    if (rng.chance(1, 2)) return PICK(IP6S, rng);
    // random from the nine ABNF shapes: L groups, "::", R groups (+ optional ipv4 tail)
    bool padded = rng.chance(1, 5);      // every group written with four digits (leading zeros): literals of maximal / exact text length
    auto h16 = [&]() { int n = padded ? 4 : rng.range(1, 4); Str s; if (padded && rng.chance(1, 2)) return Str(rng.chance(1, 2) ? "0000" : "00ff"); static const char* hx = "0123456789abcdefABCDEF"; for (int i = 0; i < n; i++) s.push_back(hx[rng.below(22)]); return s; };
    bool v4 = rng.chance(1, 4);
    int total = v4 ? 6 : 8;
    Str s;
    if (rng.chance(1, 3)) {           // no "::"
        for (int i = 0; i < total; i++) { if (i) s += ':'; s += h16(); }
        if (v4) { s += ':'; s += PICK(IP4S, rng); }
        return s;
    }
    int L = rng.range(0, total - 1), R = rng.range(0, total - 1 - L);
    for (int i = 0; i < L; i++) { if (i) s += ':'; s += h16(); }
    s += "::";
    for (int i = 0; i < R; i++) { s += h16(); if (i + 1 < R || v4) s += ':'; }
    if (v4) s += PICK(IP4S, rng);
    return s;
}
Str gen_host(Rng& rng) {
    switch (rng.below(10)) {
    case 0: case 1: case 2: case 3: return PICK(REGNAMES, rng);
    case 4: case 5: return PICK(IP4S, rng);
    case 6: case 7: return "[" + gen_ip6(rng) + "]";
    case 8: return "[" + (rng.below(2) ? Str(PICK(FUTURES, rng)) : gen_future(rng)) + "]";
    default: {  // random reg-name
        static const char cs[] = "abcXYZ019-._~!$&'()*+,;=%";
        Str s; int n = rng.range(0, 8);
        for (int i = 0; i < n; i++) { char c = cs[rng.below(sizeof cs - 1)]; if (c == '%') { static const char* hx = "0123456789abcdefABCDEF"; s += '%'; s += hx[rng.below(22)]; s += hx[rng.below(22)]; } else s += c; }
        return s; }
    }
}
Str gen_segment(Rng& rng, bool dotHeavy, bool noPctDots, bool longSeg) {
    for (;;) {
        Str s;
        if (dotHeavy) s = PICK(DOTSEGS, rng);
        else if (longSeg && rng.chance(1, 200)) { s.assign(300, 'a'); s[rng.below(300)] = rng.coin() ? 'B' : '-'; }
        else s = PICK(SEGS, rng);
        if (noPctDots && (s == "%2e" || s == "%2E" || s == "%2e%2e" || s == ".%2E")) continue;
        return s;
    }
}
Str gen_uri(Rng& rng, const UriGenOpts& o) {
    Str s;
    bool scheme = o.scheme < 0 ? rng.chance(1, 2) : o.scheme != 0;
    bool auth = o.auth < 0 ? rng.chance(1, 2) : o.auth != 0;
    bool special = o.lengths && rng.chance(1, 12);      // one component of a special length (counters, int/char-sized lengths, buffers)
    int which = special ? (int)rng.below(6) : -1;
    bool hugeOne = o.huge && rng.chance(1, 1500); int hugeWhich = hugeOne ? (int)rng.below(7) : -1;      // 6 = segment count
    if (hugeOne) { which = hugeWhich < 6 ? hugeWhich : -1; }
    auto splen = [&]() { return hugeOne ? huge_length(rng) : special_length(rng); };
    if (scheme) { if (which == 0) { Str sc(splen(), 'a'); for (auto& ch : sc) ch = (char)('a' + rng.below(26)); s += sc; } else s += PICK(SCHEMES, rng); s += ':'; }
    if (auth) {
        s += "//";
        if (rng.chance(1, 3) || which == 1) { s += which == 1 ? gen_exact_length(rng, splen()) : PICK(USERS, rng); s += '@'; }
        s += which == 2 ? gen_exact_length(rng, splen()) : gen_host(rng);
        if (rng.chance(1, 3)) { s += ':'; if (o.lengths && rng.chance(1, 40)) { Str d(special_length(rng), '0'); for (auto& ch : d) ch = (char)('0' + rng.below(10)); s += d; } else s += PICK(PORTS, rng); }
    }
    int nseg = rng.range(0, o.maxSegs);
    if (o.lengths && rng.chance(1, 60)) nseg = (int)special_length(rng) % 300;     // many segments
    if (hugeWhich == 6) nseg = (int)huge_length(rng);
    bool rooted = auth ? true : rng.coin();
    if (nseg > 0 || (rooted && rng.coin())) {
        for (int i = 0; i < (nseg ? nseg : 1); i++) {
            if (i > 0 || rooted) s += '/';
            if (nseg) s += (which == 3 && i == (nseg > 1 ? 1 : 0)) ? gen_exact_length(rng, splen()) : gen_segment(rng, o.dotHeavy, o.noPctDots, o.longSeg);
        }
    }
    if (rng.chance(1, 3) || which == 4) { s += '?'; s += which == 4 ? gen_exact_length(rng, splen()) : PICK(QUERIES, rng); }
    if (rng.chance(1, 4) || which == 5) { s += '#'; s += which == 5 ? gen_exact_length(rng, splen()) : PICK(QUERIES, rng); }
    return s;
}
static const char* const BASES[] = {"http://a/b/c/d;p?q", "http://a/b/c/d;p?q#f", "a:b", "a:/b", "a:", "a://h", "a://h/", "a://h/p", "a://h/p/", "a://h/p/q/r", "a:b/c", "a:b/c/",
    "a://u@h:1/x/y?z", "file:///x/y/", "a:/", "a://", "a:///", "a:///x", "a://h//", "a://h//x//", "a:.", "a:..", "a:b/..", "a:/b/../c", "a://h/..", "a://[::1]/p/q", "a://1.2.3.4/p",
    "a://[v1.x]:8/p?q", "HTTP://EX/p", "a:?q", "a:#f", "a:b:c/d", "a:/b:c/d", "a://h?q", "a://h#f", "s://h/a/b/c/d/e/f/g", "a:b//c", "a:/.//b", "a://h/.//b", "a:b/"};
Str gen_abs_base(Rng& rng) {
    if (rng.chance(2, 3)) return PICK(BASES, rng);
    UriGenOpts o; o.scheme = 1; o.dotHeavy = rng.coin();
    return gen_uri(rng, o);
}

// degenerate combinations: scheme x authority-shape x path-shape x query x fragment
static const char* const D_SCHEME[] = {"", "a:", "A+1:"};
static const char* const D_AUTH[] = {"", "//", "//@", "//:", "//@:", "//h", "//u@h", "//h:", "//h:1", "//u@h:1", "//a:1@", "//a:1b@h", "//a:%31@h", "//a:1", "//[::1]", "//[::1]:",
    "//@[::ffff:1.2.3.4]:0", "//1.2.3.4", "//1.2.3.4:", "//[v1.x]", "//u:@h", "//:@h", "//%41@%41:1", "//a:b:c@h"};
static const char* const D_PATH[] = {"", "/", "//", "///", "a", "a/", "/a", "/a/", "a/b", "/a/b", ".", "..", "./", "../", "/.", "/..", "/./", "a//b", "//a", "a+b/c:d", "./a:b", "a:b", "1a:b", ":", "/:", "%41", "/%41/"};
static const char* const D_QUERY[] = {"", "?", "?q", "??", "?/", "?#"};
static const char* const D_FRAG[] = {"", "#", "#f", "##", "#?", "#/"};
#define NEL(a) (sizeof(a) / sizeof(a[0]))
uint64_t gdegenerate_count() { return (uint64_t)NEL(D_SCHEME) * NEL(D_AUTH) * NEL(D_PATH) * NEL(D_QUERY) * NEL(D_FRAG); }
Str gdegenerate_case(uint64_t i) {
    Str s;
    s += D_SCHEME[i % NEL(D_SCHEME)]; i /= NEL(D_SCHEME);
    s += D_AUTH[i % NEL(D_AUTH)]; i /= NEL(D_AUTH);
    s += D_PATH[i % NEL(D_PATH)]; i /= NEL(D_PATH);
    s += D_QUERY[i % NEL(D_QUERY)]; i /= NEL(D_QUERY);
    s += D_FRAG[i % NEL(D_FRAG)];
    return s;
}
static const char* const P_SEGS[] = {"", ".", "..", "a", "b:c", "%2e"};
uint64_t gpaths_count(size_t nsegs) { return genum_count(NEL(P_SEGS), nsegs); }
Str gpaths_case(uint64_t idx, size_t nsegs) {
    size_t k = NEL(P_SEGS); uint64_t p = 1; size_t l = 0;
    while (l <= nsegs && idx >= p) { idx -= p; p *= k; l++; }
    StrVec v(l);
    for (size_t i = 0; i < l; i++) { v[l - 1 - i] = P_SEGS[idx % k]; idx /= k; }
    Str s; for (size_t i = 0; i < l; i++) { if (i) s += '/'; s += v[i]; }
    // NOTE: a single empty segment and "no segment" both render as ""; the caller adds the root
    return s;
}

// ---------------------------------------------------------------- G-STR / G-FILE
Str gen_string(Rng& rng, size_t maxlen) {
    static const char hot[] = "%%%\r\n\r\n ++&==aAfF09gG~-._/\\:";
    size_t n = rng.below((uint32_t)maxlen + 1); Str s;
    if (maxlen >= 20 && rng.chance(1, 4000)) { static const size_t H[] = {65535, 65536, 65537, 256, 255, 257, 32768}; n = maxlen = H[rng.below(7)]; }      // lengths around 8- and 16-bit limits, whatever the caller's usual maximum
    for (size_t i = 0; i < n; i++) {
        switch (rng.below(6)) {
        case 0: case 1: s.push_back(hot[rng.below(sizeof hot - 1)]); break;
        case 2: s.push_back((char)rng.range(1, 255)); break;
        case 3: { static const char* hx = "0123456789abcdefABCDEFgG"; s += '%'; s += hx[rng.below(24)]; if (rng.chance(7, 8)) s += hx[rng.below(24)]; break; }
        case 4: s += rng.coin() ? "\r\n" : (rng.coin() ? "%0D%0A" : "%0d%0a"); break;
        default: s.push_back((char)rng.range('a', 'z')); break;
        }
    }
    if (s.size() > maxlen) s.resize(maxlen);
    // text saved by a Windows editor: a UTF-8 signature in front (data like any other as far as this library is concerned)
    if (maxlen >= 6 && rng.chance(1, 48)) { s = "\xEF\xBB\xBF" + s; if (s.size() > maxlen) s.resize(maxlen); }
    return s;
}
// names that mean something to some file-URI convention (RFC 8089 localhost, Windows device / extended-length prefixes, legacy drive
// notations, dot segments, text that looks like a URI): an implementation that special-cases one of them breaks the round trip
static const char* const FSPECIAL[] = {"localhost", "LOCALHOST", "?", ".", "..", "C:", "c:", "C|", "c$", "UNC", "127.0.0.1", "file:", "a:b", "%41", "%2F", "%5C", "~", "CON", "...", "x.", " ", "+", "[::1]", "a b"};
static Str gen_fname_segment(Rng& rng, const char* forbidden) {
    if (rng.chance(1, 8)) { Str t = FSPECIAL[rng.below(sizeof FSPECIAL / sizeof FSPECIAL[0])]; bool ok = true; for (char ch : t) if (strchr(forbidden, ch)) ok = false; if (ok) return t; }
    static const char hot[] = "abcXYZ019 .-_~%:@#?&=+;,![]{}^'()$";
    int n = rng.range(0, 8); Str s;
    for (int i = 0; i < n; i++) {
        char c = rng.chance(3, 4) ? hot[rng.below(sizeof hot - 1)] : (char)rng.range(1, 255);
        if (strchr(forbidden, c)) c = 'x';
        s.push_back(c);
    }
    return s;
}
Str gen_filename_unix(Rng& rng) {
    Str s; if (rng.coin()) s += '/';
    int n = rng.range(0, 5);
    for (int i = 0; i < n; i++) { if (i) s += '/'; s += gen_fname_segment(rng, "/"); if (rng.chance(1, 10)) s += '/'; }
    if (rng.chance(1, 20)) s = gen_string(rng, 12);
    if (rng.chance(1, 32)) s = "\xEF\xBB\xBF" + s;      // first line of a list saved with a UTF-8 signature
    return s;
}
Str gen_filename_win(Rng& rng) {
    // C18's domain: backslash separators only; drive-absolute "X:\...", UNC "\\server[\...]" (non-empty server), or
    // relative (does not start with "\\", second character is not ':')
    Str s; int kind = rng.below(3);
    auto tail = [&](Str& t) { int n = rng.range(0, 4); for (int i = 0; i < n; i++) { if (i) t += '\\'; t += gen_fname_segment(rng, "/\\"); if (rng.chance(1, 10)) t += '\\'; } };
    if (kind == 0) { s.push_back((char)(rng.coin() ? rng.range('A', 'Z') : rng.range('a', 'z'))); s += ":\\"; tail(s);
        // deep trees: total lengths around MAX_PATH (260) and the other lengths of special_length()
        if (rng.chance(1, 12)) { size_t want = rng.coin() ? (size_t)rng.range(250, 270) : special_length(rng); while (s.size() < want) { if (s.back() != '\\') s += '\\'; Str seg = "node_modules"; seg.resize(1 + rng.below(12)); s += seg; } if (s.size() > want && want > 3) s.resize(want); } }
    else if (kind == 1) { s += "\\\\"; Str srv = gen_fname_segment(rng, "/\\"); if (srv.empty()) srv = "srv"; s += srv; if (rng.coin()) { s += '\\'; tail(s); } }
    else {
        tail(s);
        if (s.size() >= 2 && s[0] == '\\' && s[1] == '\\') s[1] = 'x';
        if (s.size() >= 2 && s[1] == ':') s[1] = 'y';
        if (rng.chance(1, 16)) s = "\xEF\xBB\xBF" + s;      // relative names only: in front of a drive letter or "\\\\" it would leave C18's domain
    }
    return s;
}

} // namespace vf
