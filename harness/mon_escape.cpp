// Monitor "escape": C16 -- uriEscape(Ex) / uriUnescapeInPlace(Ex) against the text models, documented
// output bounds (3n / 6n) with the buffer flush against a fence, in-place decoding with the terminator
// as the last mapped character.
#include "vf_api.hpp"
#include "vf_model.hpp"
#include "vf_mem.hpp"
#include "vf_gen.hpp"

using namespace vf;
namespace {

static const char ENUM_ALPHA[] = "%0DAda+ x\r\nG\xE4";      // 13 symbols; all strings up to length 4 (quick) / 5 (thorough)
static uint64_t nenum(Ctx& c) { return genum_count(13, (size_t)c.param_int("enum_len", c.tier == "thorough" ? 5 : 4)); }
// token-level enumeration: all sequences of up to N tokens (the decoder's states: well-formed break triplets in both cases,
// truncated and malformed '%' sequences, '+', literal breaks, ordinary characters)
static const char* const TOKENS[] = {"%0D", "%0A", "%0d", "%0a", "%", "%4", "%G", "%4G", "%41", "+", "\r", "\n", " ", "a", "%e4", "%00x"};
static const size_t NTOK = sizeof(TOKENS) / sizeof(TOKENS[0]);
static uint64_t ntok(Ctx& c) { return genum_count(NTOK, (size_t)c.param_int("tok_len", c.tier == "thorough" ? 5 : 4)); }
static Str tok_case(uint64_t idx) {
    uint64_t p = 1; size_t l = 0; while (idx >= p) { idx -= p; p *= NTOK; l++; }
    std::vector<const char*> v(l); for (size_t i = 0; i < l; i++) { v[l - 1 - i] = TOKENS[idx % NTOK]; idx /= NTOK; }
    Str s; for (auto t : v) s += t; return s;
}
// every character value alone / between letters / doubled, and every triplet %HH in the four hex-case spellings alone and followed by text
static uint64_t nchars() { return 255 * 3 + 256 * 4 * 2; }
static Str char_case(uint64_t i) {
    if (i < 255 * 3) { unsigned b = 1 + (unsigned)(i % 255); Str x; switch (i / 255) { case 0: x.push_back((char)b); break; case 1: x = "a"; x.push_back((char)b); x += "Z"; break; default: x.push_back((char)b); x.push_back((char)b); } return x; }
    i -= 255 * 3; unsigned b = (unsigned)(i % 256); i /= 256; unsigned v = (unsigned)(i % 4); bool tail = i / 4;
    static const char* HU = "0123456789ABCDEF"; static const char* HL = "0123456789abcdef";
    Str x = "%"; x.push_back((v & 1 ? HL : HU)[b >> 4]); x.push_back((v & 2 ? HL : HU)[b & 15]); if (tail) x = "q" + x + "%4"; return x;
}
static uint64_t ncases(Ctx& c) { return nchars() + nenum(c) + ntok(c) + (uint64_t)c.param_int("random", c.tier == "thorough" ? 5000000 : 150000); }

template <class X> struct Esc {
    typedef typename X::Char Char;
    OutBuf ob; GuardedInput gin, gio;

    void escape_checks(Ctx& c, const Str& s) {
        typename X::S w = widen<X>(s);
        for (int flags = 0; flags < 4; flags++) {
            int plus = flags & 1, nb = (flags & 2) ? 1 : 0;
            // any non-zero UriBool means "yes"
            if ((c.case_index % 7) == 3) { if (plus) plus = (c.case_index & 8) ? -1 : 2; if (nb) nb = (c.case_index & 16) ? 0x100 : 2; }
            for (int ex = 0; ex < 2; ex++) {
                // input: explicit range without terminator (Ex) or NUL-terminated
                typename X::S in = w; if (!ex) in.push_back(0);
                gin.set(in.data(), in.size() * sizeof(Char), 0);
                const Char* first = (const Char*)gin.ptr;
                size_t bound = (nb ? 6 : 3) * s.size() + 1;
                int mode = (int)((c.case_index + (uint64_t)flags) & 1);
                Char* out = (Char*)ob.make(bound * sizeof(Char), mode, 0x6B);
                Char* ret;
                c.stage((uint64_t)flags * 2 + (uint64_t)ex + 1);
                { LibScope ls; ret = ex ? X::EscapeEx(first, first + w.size(), out, plus, nb) : X::Escape(first, out, plus, nb); }
                c.evaluations++;
                Str what = fmt("%s(\"%s\", spaceToPlus=%d, normalizeBreaks=%d)", ex ? "uriEscapeEx" : "uriEscape", esc(s).c_str(), plus, nb);
                long where;
                if (!ob.canaries_ok(&where)) c.violation("C16", fmt("escape/%s/write-outside-documented-bound", X::tag()), what + fmt(" offset %ld", where));
                if (!gin.unchanged()) c.violation("C16", fmt("escape/%s/input-modified", X::tag()), what);
                if (!ret || ret < out || ret >= out + bound) { c.violation("C16", fmt("escape/%s/returned-pointer-outside-output", X::tag()), what); continue; }
                size_t len = (size_t)(ret - out);
                if (*ret != 0) c.violation("C16", fmt("escape/%s/returned-pointer-not-terminator", X::tag()), what);
                bool lossy = false; Str got = narrow<X>(out, ret, &lossy);
                if (len > (nb ? 6 : 3) * s.size()) c.violation("C16", fmt("escape/%s/longer-than-bound", X::tag()), what + fmt(" len=%zu", len));
                // only unreserved, %XX upper-case hex, '+' when requested
                bool legal = !lossy;
                for (size_t i = 0; i < got.size() && legal; i++) {
                    unsigned char ch = (unsigned char)got[i];
                    if (is_unreserved(ch)) continue;
                    if (ch == '+' && plus) continue;
                    if (ch == '%' && i + 2 < got.size() + 0 && strchr("0123456789ABCDEF", got[i + 1]) && got[i + 1] && strchr("0123456789ABCDEF", got[i + 2]) && got[i + 2]) { i += 2; continue; }
                    legal = false;
                }
                if (!legal) c.violation("C16", fmt("escape/%s/illegal-output-character", X::tag()), what + fmt(" output=\"%s\"", esc(got).c_str()));
                Str model = m_escape(s, plus, nb);
                if (got != model) c.violation("C16", fmt("escape/%s/differs-from-model", X::tag()), what + fmt(" output=\"%s\" model=\"%s\"", esc(got).c_str(), esc(model).c_str()));
                // round trip with the matching plus option
                std::vector<Char> tmp(out, ret + 1);
                const Char* end; { LibScope ls; end = X::UnescapeInPlaceEx(tmp.data(), plus, URI_BR_DONT_TOUCH); }
                c.evaluations++;
                Str back = narrow<X>(tmp.data(), end);
                Str expect = nb ? normalize_breaks_to_crlf(s) : s;
                if (back != expect) c.violation("C16", fmt("escape/%s/round-trip", X::tag()), what + fmt(" escaped=\"%s\" unescaped=\"%s\" expected=\"%s\"", esc(got).c_str(), esc(back).c_str(), esc(expect).c_str()));
            }
        }
    }

    // input range and output buffer in ONE block, the output starting exactly where the input ends (and, second layout, the input
    // sitting at the far end of the output buffer's block): the two do not overlap, so nothing may differ from the separate-buffer call
    void adjacent_checks(Ctx& c, const Str& s) {
        if (s.empty()) return;
        typename X::S w = widen<X>(s); size_t n = w.size();
        for (int flags = 0; flags < 4; flags++) {
            bool plus = flags & 1, nb = flags & 2; size_t bound = (nb ? 6 : 3) * n + 1;
            for (int layout = 0; layout < 2; layout++) {
                std::vector<Char> blk(n + bound + n, X::wid('#'));
                Char* in = layout == 0 ? blk.data() : blk.data() + bound; Char* out = layout == 0 ? blk.data() + n : blk.data();
                memcpy(in, w.data(), n * sizeof(Char));
                Char* ret; { LibScope ls; ret = X::EscapeEx(in, in + n, out, plus, nb); } c.evaluations++;
                Str what = fmt("uriEscapeEx(\"%s\", spaceToPlus=%d, normalizeBreaks=%d) with %s", esc(s).c_str(), (int)plus, (int)nb, layout == 0 ? "the output buffer starting exactly at the end of the input range" : "the input range starting exactly at the end of the output buffer");
                if (!ret || ret < out || ret >= out + bound) { c.violation("C16", fmt("escape/%s/adjacent-buffers/returned-pointer-outside-output", X::tag()), what); continue; }
                Str got = narrow<X>(out, ret), model = m_escape(s, plus, nb);
                if (*ret != 0 || got != model) c.violation("C16", fmt("escape/%s/adjacent-buffers/differs-from-model", X::tag()), what + fmt(" output=\"%s\" model=\"%s\"", esc(got).c_str(), esc(model).c_str()));
                if (memcmp(in, w.data(), n * sizeof(Char)) != 0) c.violation("C16", fmt("escape/%s/adjacent-buffers/input-modified", X::tag()), what);
                c.count("adjacent_buffer_calls");
            }
        }
    }

    void unescape_checks(Ctx& c, const Str& s0) {
        Str s = s0; for (auto& ch : s) if (!ch) ch = '0';
        typename X::S w = widen<X>(s); w.push_back(0);
        bool hasLiteralBreak = s.find('\r') != Str::npos || s.find('\n') != Str::npos;
        for (int plus = 0; plus < 2; plus++) for (int br = 0; br < 4; br++) for (int variant = 0; variant < 2; variant++) {
            if (variant == 1 && (plus || br != 3)) continue;       // uriUnescapeInPlace == (plus=0, DONT_TOUCH)
            // buffer: exactly the string + terminator, terminator is the last mapped character; bytes before are canaries
            gio.set(w.data(), w.size() * sizeof(Char), 0);
            Char* buf = (Char*)gio.ptr;
            const Char* end;
            c.stage(100 + (uint64_t)plus * 8 + (uint64_t)br * 2 + (uint64_t)variant);
            int plusArg = (plus && (c.case_index % 5) == 2) ? ((c.case_index & 4) ? -1 : 2) : plus;      // any non-zero UriBool means "yes"
            { LibScope ls; end = variant ? X::UnescapeInPlace(buf) : X::UnescapeInPlaceEx(buf, plusArg, (UriBreakConversion)br); }
            c.evaluations++;
            Str what = fmt("%s(\"%s\", plusToSpace=%d, breakConversion=%d)", variant ? "uriUnescapeInPlace" : "uriUnescapeInPlaceEx", esc(s).c_str(), plusArg, br);
            if (!end || end < buf || end > buf + s.size()) { c.violation("C16", fmt("unescape/%s/returned-pointer-outside-or-longer", X::tag()), what); continue; }
            if (*end != 0) c.violation("C16", fmt("unescape/%s/not-terminated-at-returned-pointer", X::tag()), what);
            if (buf[s.size()] != 0) c.violation("C16", fmt("unescape/%s/original-terminator-overwritten", X::tag()), what);
            Str got = narrow<X>(buf, end);
            // literal CR/LF conversion is only specified in keep-breaks mode
            if (hasLiteralBreak && br != 3) { c.count("unescape_literal_break_memory_only"); continue; }
            Str model = m_unescape(s, plus, br);
            if (got != model) c.violation("C16", fmt("unescape/%s/differs-from-model", X::tag()), what + fmt(" output=\"%s\" model=\"%s\"", esc(got).c_str(), esc(model).c_str()));
        }
        // wchar_t only: a character above U+00FF whose low byte is the code of a hex digit, right behind a '%'. It is no hex digit, so
        // the sequence is malformed and stays as it is (in the model such a character is the ordinary placeholder 0x7F)
        if (sizeof(Char) > 1 && s.find('%') != Str::npos && !hasLiteralBreak) {
            Str ms = s; for (auto& ch : ms) if ((unsigned char)ch == 0x7F) ch = 'x';
            typename X::S w2 = widen<X>(ms); std::vector<size_t> cand;
            for (size_t i = 0; i < ms.size(); i++) if (ms[i] == '%') { if (i + 1 < ms.size()) cand.push_back(i + 1); if (i + 2 < ms.size()) cand.push_back(i + 2); }
            if (!cand.empty()) {
                size_t pz = cand[c.rng.below((uint32_t)cand.size())]; static const unsigned HI[] = {0x0100u, 0x0200u, 0x10000u, 0x7FFFFF00u}; static const char HX[] = "0123456789abcdefABCDEF";
                unsigned cp = HI[c.rng.below(4)] | (unsigned char)HX[c.rng.below(22)];
                w2[pz] = (Char)cp; ms[pz] = (char)0x7F; w2.push_back(0);
                int plus = (int)c.rng.below(2), br = (int)c.rng.below(4);
                gio.set(w2.data(), w2.size() * sizeof(Char), 0); Char* buf = (Char*)gio.ptr; const Char* end;
                { LibScope ls; end = X::UnescapeInPlaceEx(buf, plus, (UriBreakConversion)br); }
                c.evaluations++; c.count("unescape_wide_non_hex_after_percent");
                Str what = fmt("uriUnescapeInPlaceExW(\"%s\" with U+%04X at offset %zu, plusToSpace=%d, breakConversion=%d)", esc(ms).c_str(), cp, pz, plus, br);
                if (!end || end < buf || end > buf + ms.size()) c.violation("C16", fmt("unescape/%s/returned-pointer-outside-or-longer", X::tag()), what);
                else { Str got; for (const Char* q = buf; q < end; q++) got.push_back(X::cp(*q) > 255 ? (char)0x7F : (char)X::cp(*q));
                       Str model = m_unescape(ms, plus, br);
                       if (got != model) c.violation("C16", fmt("unescape/%s/wide-character-taken-for-hex-digit", X::tag()), what + fmt(" output=\"%s\" model=\"%s\" (0x7f stands for the wide character)", esc(got).c_str(), esc(model).c_str())); }
            }
        }
    }
};

// Wide characters above U+00FF (wchar_t API only). The property does not exempt them: what is escaped must come back. The
// pinned library escapes such a character by its low byte ("%AC" for U+20AC), so it comes back as another character -- a
// recorded finding (KNOWN_FINDINGS.txt); the diagnoser confirms that very behaviour, anything else is a violation of its own.
static void wide_above_255(Ctx& c, const Str& s8) {
    typedef ApiW X; typedef wchar_t Char;
    std::basic_string<wchar_t> w = widen<X>(s8); for (auto& ch : w) if (!ch) ch = L'x';
    static const unsigned HI[] = {0x100, 0x141, 0x20AC, 0x416, 0x4E2D, 0xFFFD, 0x10000, 0x1F600, 0x10FFFF, 0x2500, 0x0D00 + 0x0A, 0xFF0D};
    int n = 1 + (int)c.rng.below(3); for (int i = 0; i < n; i++) { size_t p = c.rng.below((uint32_t)w.size() + 1); w.insert(w.begin() + (long)p, (wchar_t)HI[c.rng.below(12)]); }
    int plus = (int)c.rng.below(2), nb = (int)c.rng.below(2);
    std::vector<Char> out((nb ? 6 : 3) * w.size() + 1 + 8, (Char)0x5A5A5A);
    Char* end; { LibScope ls; end = X::EscapeEx(w.data(), w.data() + w.size(), out.data(), plus, nb); }
    c.evaluations++; c.count("escape_wide_above_255");
    Str shown; for (wchar_t ch : w) shown += (unsigned)ch > 255 ? fmt("\\u{%X}", (unsigned)ch) : esc(Str(1, (char)ch));
    Str what = fmt("uriEscapeExW(\"%s\", spaceToPlus=%d, normalizeBreaks=%d)", shown.c_str(), plus, nb);
    if (!end || end < out.data() || (size_t)(end - out.data()) > (nb ? 6 : 3) * w.size()) { c.violation("C16", "escape/W/above-255/bound-or-pointer", what); return; }
    if (*end != 0) c.violation("C16", "escape/W/above-255/not-terminated", what);
    for (Char* q = out.data(); q < end; q++) { unsigned v = (unsigned)*q; bool ok = v < 128 && (isalnum((int)v) || v == '-' || v == '.' || v == '_' || v == '~' || v == '%' || (v == '+' && plus)); if (!ok) { c.violation("C16", "escape/W/above-255/illegal-character-in-output", what); return; } }
    std::vector<Char> back(out.data(), end + 1); const Char* e2; { LibScope ls; e2 = X::UnescapeInPlaceEx(back.data(), plus, URI_BR_DONT_TOUCH); }
    std::basic_string<wchar_t> got(back.data(), (size_t)((e2 ? e2 : back.data()) - back.data()));
    std::basic_string<wchar_t> want; for (size_t i = 0; i < w.size(); i++) { if (nb && (w[i] == 13 || w[i] == 10)) { if (w[i] == 13 && i + 1 < w.size() && w[i + 1] == 10) i++; want += L"\r\n"; } else want.push_back(w[i]); }
    if (got == want) { c.count("escape_wide_above_255_round_trip_ok"); return; }
    std::basic_string<wchar_t> legacy = want; for (auto& ch : legacy) if ((unsigned)ch > 255) ch = (wchar_t)((unsigned)ch & 0xFF);
    if (got == legacy) c.violation("C16", "escape/W/character-above-U+00FF-escaped-as-its-low-byte", what);
    else c.violation("C16", "escape/W/above-255/round-trip-differs-otherwise", what);
}

static Esc<ApiA>* eA; static Esc<ApiW>* eW;
static void run_case(Ctx& c, uint64_t idx) {
    if (!eA) { eA = new Esc<ApiA>(); eW = new Esc<ApiW>(); }
    Str s; uint64_t ne = nenum(c), nc = nchars();
    if (idx < nc) { s = char_case(idx); c.count("gen_charset"); }
    else if ((idx -= nc) < ne) s = genum_case(idx, Str(ENUM_ALPHA, 13), 6);
    else if (idx < ne + ntok(c)) s = tok_case(idx - ne);
    else s = gen_string(c.rng, c.rng.chance(1, 30) ? 400 : 24);
    c.note("escape \"" + esc(s.substr(0, 200)) + "\"");
    c.distinct(hash_str(s));
    if (c.case_index < nc) { eA->escape_checks(c, s); eA->unescape_checks(c, s); eW->escape_checks(c, s); eW->unescape_checks(c, s); return; }
    if (idx % 2 == 0) { eA->escape_checks(c, s); eA->unescape_checks(c, s); } else { eW->escape_checks(c, s); eW->unescape_checks(c, s); }
    if (idx % 10 == 0) { eW->unescape_checks(c, s); eA->escape_checks(c, s); }
    if (idx % 6 == 1 && s.size() <= 64) { if (idx % 12 == 1) eA->adjacent_checks(c, s); else eW->adjacent_checks(c, s); }
    if (c.case_index % 16 == 5 && s.size() <= 64) wide_above_255(c, s);
    if (idx % 9000 == 2) c.sample("string", esc(s));
}
static void fuzz_one(Ctx& c, const unsigned char* d, size_t n) {
    if (!eA) { eA = new Esc<ApiA>(); eW = new Esc<ApiW>(); }
    if (n > 300) n = 300; Str s((const char*)d, n); for (auto& ch : s) if (!ch) ch = '0';
    c.distinct(hash_str(s));
    if (n & 1) { eW->escape_checks(c, s); eW->unescape_checks(c, s); } else { eA->escape_checks(c, s); eA->unescape_checks(c, s); }
}
static Monitor mon = {"escape", "C16: percent-escaping / in-place unescaping vs models, documented bounds against fences", "C16", ncases, run_case, nullptr, fuzz_one};
VF_REGISTER(mon);
}
