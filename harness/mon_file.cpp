// Monitor "file": C18 -- filename <-> URI string conversions: round trip, validity and form of the URI
// string, documented buffer sizes (buffers are exactly that large, flush against a fence / exact heap block).
#include "vf_api.hpp"
#include "vf_model.hpp"
#include "vf_mem.hpp"
#include "vf_gen.hpp"

using namespace vf;
namespace {

static uint64_t ncases(Ctx& c) { return (uint64_t)c.param_int("names", c.tier == "thorough" ? 6000000 : 300000); }

template <class X> struct F {
    typedef typename X::Char Char;
    OutBuf o1, o2; GuardedInput gin, gin2;

    void run(Ctx& c, const Str& name, bool unix_) {
        typename X::S w = widen<X>(name); w.push_back(0);
        gin.set(w.data(), w.size() * sizeof(Char), 0);
        const Char* fn = (const Char*)gin.ptr;
        size_t n = name.size();
        bool absolute, unc = false, drive = false;
        if (unix_) absolute = n && name[0] == '/';
        else { unc = n >= 2 && name[0] == '\\' && name[1] == '\\'; drive = n >= 2 && name[1] == ':'; absolute = unc || drive; }
        size_t bound = (absolute ? (unix_ ? 7 : 8) : 0) + 3 * n + 1;
        int mode = (int)(c.case_index & 1);
        Char* uri = (Char*)o1.make(bound * sizeof(Char), mode, 0x77);
        int rc; c.stage(1);
        { LibScope ls; rc = unix_ ? X::UnixFilenameToUriString(fn, uri) : X::WindowsFilenameToUriString(fn, uri); }
        c.evaluations++;
        Str what = fmt("%s filename=\"%s\"", unix_ ? "unix" : "windows", esc(name).c_str());
        long where; if (!o1.canaries_ok(&where)) c.violation("C18", fmt("file/%s/to-uri-writes-beyond-documented-size", X::tag()), what + fmt(" offset %ld", where));
        if (!gin.unchanged()) c.violation("C18", fmt("file/%s/input-modified", X::tag()), what);
        if (rc != URI_SUCCESS) { c.violation("C18", fmt("file/%s/to-uri-failed", X::tag()), what + fmt(" rc=%d", rc)); return; }
        size_t len = 0; while (len < bound && uri[len]) len++;
        if (len >= bound) { c.violation("C18", fmt("file/%s/uri-string-exceeds-documented-size", X::tag()), what); return; }
        Str us = narrow<X>(uri, uri + len);
        what += fmt(" uri=\"%s\"", esc(us).c_str());
        // valid URI reference, by the automaton and by the library's own parser
        size_t e; bool valid = dfa_uriref(us, &e);
        if (!valid) c.violation("C18", fmt("file/%s/uri-string-not-a-uri-reference", X::tag()), what + fmt(" error at %zu", e));
        { typename X::Uri u; const Char* ep; int pr; { LibScope ls; pr = X::ParseSingleUriEx(&u, uri, uri + len, &ep); if (pr == URI_SUCCESS) X::FreeUriMembers(&u); } c.evaluations++;
          if ((pr == URI_SUCCESS) != valid) c.count("parser_and_automaton_disagree"); }
        // form
        if (valid) {
            Comp m = split(us);
            const char* form = nullptr;
            if (unix_ && absolute) { if (!(us.compare(0, 8, "file:///") == 0)) form = "unix-absolute-not-file:///"; }
            else if (!unix_ && drive) { if (!(us.compare(0, 8, "file:///") == 0 && us.size() >= 10 && us[8] == name[0] && us[9] == ':' && (us.size() == 10 || us[10] == '/'))) form = "drive-absolute-not-file:///X:/"; }
            else if (!unix_ && unc) { if (!(m.hasScheme && m.scheme == "file" && m.hasAuth && !m.host.empty())) form = "unc-not-file://server"; }
            else if (m.hasScheme || m.hasAuth) form = "relative-name-gave-scheme-or-authority";
            if (form) c.violation("C18", fmt("file/%s/form/%s", X::tag(), form), what);
            c.count(unix_ ? (absolute ? "form_unix_absolute" : "form_unix_relative") : drive ? "form_drive_absolute" : unc ? "form_unc" : "form_windows_relative");
        }
        // the same conversion with the output buffer starting exactly behind the input's terminator (one block): same result
        if ((c.case_index & 7) == 5) {
            std::vector<Char> blk(w.size() + bound, X::wid('#')); memcpy(blk.data(), w.data(), w.size() * sizeof(Char));
            int r2; { LibScope ls; r2 = unix_ ? X::UnixFilenameToUriString(blk.data(), blk.data() + w.size()) : X::WindowsFilenameToUriString(blk.data(), blk.data() + w.size()); } c.evaluations++;
            size_t l2 = 0; while (l2 < bound && blk[w.size() + l2]) l2++;
            if (r2 != URI_SUCCESS || l2 != len || narrow<X>(blk.data() + w.size(), blk.data() + w.size() + l2) != us || memcmp(blk.data(), w.data(), w.size() * sizeof(Char)) != 0)
                c.violation("C18", fmt("file/%s/adjacent-buffers-differ", X::tag()), what + fmt(" rc=%d", r2));
        }
        // back: buffer of exactly the documented size
        size_t backBound = absolute ? len + 1 - 5 : len + 1;
        std::vector<Char> ucopy(uri, uri + len + 1);
        gin2.set(ucopy.data(), ucopy.size() * sizeof(Char), 0);
        Char* back = (Char*)o2.make(backBound * sizeof(Char), mode ^ 1, 0x2E);
        c.stage(2);
        { LibScope ls; rc = unix_ ? X::UriStringToUnixFilename((const Char*)gin2.ptr, back) : X::UriStringToWindowsFilename((const Char*)gin2.ptr, back); }
        c.evaluations++;
        if (!o2.canaries_ok(&where)) c.violation("C18", fmt("file/%s/to-filename-writes-beyond-documented-size", X::tag()), what + fmt(" offset %ld", where));
        if (!gin2.unchanged()) c.violation("C18", fmt("file/%s/input-modified", X::tag()), what);
        if (rc != URI_SUCCESS) { c.violation("C18", fmt("file/%s/to-filename-failed", X::tag()), what + fmt(" rc=%d", rc)); return; }
        size_t bl = 0; while (bl < backBound && back[bl]) bl++;
        if (bl >= backBound) { c.violation("C18", fmt("file/%s/filename-exceeds-documented-size", X::tag()), what); return; }
        Str bs = narrow<X>(back, back + bl);
        if (bs != name) c.violation("C18", fmt("file/%s/round-trip/%s", X::tag(), unix_ ? "unix" : drive ? "drive" : unc ? "unc" : "windows-relative"), what + fmt(" back=\"%s\"", esc(bs).c_str()));
        else c.count("round_trip_ok");
    }
    // the short input forms
    void short_forms(Ctx& c) {
        struct T { const char* uri; const char* unixName; const char* winName; };
        static const T t[] = {{"file:/x", "/x", nullptr}, {"file:/bin/bash", "/bin/bash", nullptr}, {"file:c:/x", nullptr, "c:\\x"}, {"file:C:/a/b%20c", nullptr, "C:\\a\\b c"},
                              {"file:///x", "/x", nullptr}, {"file:///C:/x", nullptr, "C:\\x"}, {"file://server/share", nullptr, "\\\\server\\share"}};
        for (const T& k : t) for (int ux = 0; ux < 2; ux++) {
            const char* want = ux ? k.unixName : k.winName; if (!want) continue;
            typename X::S w = widen<X>(k.uri); w.push_back(0);
            std::vector<Char> out(w.size() + 4); int rc;
            { LibScope ls; rc = ux ? X::UriStringToUnixFilename(w.c_str(), out.data()) : X::UriStringToWindowsFilename(w.c_str(), out.data()); }
            c.evaluations++;
            Str got = narrow<X>(out.data(), out.data() + xstrlen<X>(out.data()));
            if (rc != URI_SUCCESS || got != want) c.violation("C18", fmt("file/%s/short-form", X::tag()), fmt("uri=\"%s\" -> \"%s\" expected \"%s\"", k.uri, esc(got).c_str(), want));
        }
    }
};

static F<ApiA>* fA; static F<ApiW>* fW;
static void wide_above_255(Ctx& c, const Str& name8, bool ux);
static void run_case(Ctx& c, uint64_t idx) {
    if (!fA) { fA = new F<ApiA>(); fW = new F<ApiW>(); }
    if (idx < 4) { if (idx & 1) fW->short_forms(c); else fA->short_forms(c); return; }
    if (idx < 4 + 255 * 7) {       // every character value in every kind of name (inside C18's domain), both character types
        uint64_t i = idx - 4; unsigned b = 1 + (unsigned)(i % 255); int k = (int)(i / 255); Str ch(1, (char)b); bool ux = k < 3; Str name;
        switch (k) { case 0: name = "/a" + ch + "c/" + ch; break; case 1: name = ch + "x/y" + ch; break; case 2: name = "d/" + ch; break;
                     case 3: name = "C:\\" + ch + "\\q" + ch; break; case 4: name = "\\\\srv" + ch + "\\" + ch + "y"; break; case 5: name = "a" + ch + "\\" + ch; break; default: name = "ab\\" + ch + ch; break; }
        if (!ux && (b == '/' || (k == 4 && b == '\\'))) return;
        if (!ux && k >= 5 && name.size() >= 2 && name[1] == ':') return;
        if (ux && k == 1 && b == '/') { /* "/x/y/" is simply an absolute name */ }
        c.count("gen_charset"); c.distinct(hash_str(name, ux)); c.note(fmt("file charset %s \"%s\"", ux ? "unix" : "windows", esc(name).c_str()));
        fA->run(c, name, ux); fW->run(c, name, ux); return;
    }
    bool ux = c.rng.coin();
    Str name = ux ? gen_filename_unix(c.rng) : gen_filename_win(c.rng);
    c.note(fmt("file %s \"%s\"", ux ? "unix" : "windows", esc(name.substr(0, 200)).c_str()));
    c.distinct(hash_str(name, ux));
    if (idx % 2) fW->run(c, name, ux); else fA->run(c, name, ux);
    if (idx % 16 == 7 && name.size() <= 80) wide_above_255(c, name, ux);
    if (idx % 20000 == 5) c.sample(ux ? "unix" : "windows", esc(name));
}
// File names with wide characters above U+00FF (wchar_t API): the property speaks of "any" file name. The pinned library escapes such a
// character by its low byte, so it comes back as another character (or ends the name, if that byte is 0) -- a recorded finding
// (KNOWN_FINDINGS.txt); the diagnoser confirms exactly that behaviour, anything else is reported on its own.
static void wide_above_255(Ctx& c, const Str& name8, bool ux) {
    typedef ApiW X; typedef wchar_t Char;
    std::basic_string<wchar_t> w = widen<X>(name8);
    static const unsigned HI[] = {0x141, 0x20AC, 0x416, 0x4E2D, 0xFFFD, 0x1F600, 0x2500, 0x100, 0xFF0D, 0x22F};
    size_t lo = 0; if (!ux) { if (w.size() >= 3 && w[1] == L':') lo = 3; else if (w.size() >= 2 && w[0] == L'\\' && w[1] == L'\\') lo = 3; } else if (!w.empty() && w[0] == L'/') lo = 1;
    if (lo > w.size()) lo = w.size();
    int n = 1 + (int)c.rng.below(2); for (int i = 0; i < n; i++) { size_t p = lo + c.rng.below((uint32_t)(w.size() - lo) + 1); w.insert(w.begin() + (long)p, (wchar_t)HI[c.rng.below(10)]); }
    if (!ux && lo == 0 && w.size() >= 2 && w[1] == L':') return;      // the insertion made it "x:..." without being drive-absolute: outside C18's domain
    std::vector<Char> uri(8 + 3 * w.size() + 1 + 4, 0); int rc; { LibScope ls; rc = ux ? X::UnixFilenameToUriString(w.c_str(), uri.data()) : X::WindowsFilenameToUriString(w.c_str(), uri.data()); }
    c.evaluations++; c.count("file_wide_above_255");
    Str shown; for (wchar_t ch : w) shown += (unsigned)ch > 255 ? fmt("\\u{%X}", (unsigned)ch) : esc(Str(1, (char)ch));
    Str what = fmt("%s filename \"%s\"", ux ? "unix" : "windows", shown.c_str());
    if (rc != URI_SUCCESS) { c.violation("C18", "file/W/above-255/conversion-failed", what + fmt(" rc=%d", rc)); return; }
    size_t len = xstrlen<X>(uri.data()); if (len >= 8 + 3 * w.size() + 1) { c.violation("C18", "file/W/above-255/uri-string-exceeds-documented-size", what); return; }
    std::vector<Char> back(len + 2, 0); { LibScope ls; rc = ux ? X::UriStringToUnixFilename(uri.data(), back.data()) : X::UriStringToWindowsFilename(uri.data(), back.data()); }
    std::basic_string<wchar_t> got(back.data());
    if (rc == URI_SUCCESS && got == w) { c.count("file_wide_above_255_round_trip_ok"); return; }
    std::basic_string<wchar_t> legacy; for (wchar_t ch : w) { wchar_t v = (unsigned)ch > 255 ? (wchar_t)((unsigned)ch & 0xFF) : ch; if (!v) break; if (!ux && v == L'/') v = L'\\'; legacy.push_back(v); }      // a low byte 0x2F is a slash, which the Windows direction turns into a backslash
    if (rc == URI_SUCCESS && got == legacy) c.violation("C18", "file/W/character-above-U+00FF-comes-back-as-its-low-byte", what);
    else c.violation("C18", "file/W/above-255/round-trip-differs-otherwise", what + fmt(" rc=%d", rc));
}
static void fuzz_one(Ctx& c, const unsigned char* d, size_t n) {
    if (!fA) { fA = new F<ApiA>(); fW = new F<ApiW>(); }
    if (n < 1) return; if (n > 300) n = 300; bool ux = d[0] & 1; bool wide = d[0] & 2; Str name((const char*)d + 1, n - 1); for (auto& ch : name) if (!ch) ch = 'x';
    if (!ux) {   // stay inside C18's domain: backslash separators only; drive-absolute, UNC with non-empty server, or relative
        for (auto& ch : name) if (ch == '/') ch = '\\';
        bool unc = name.size() >= 2 && name[0] == '\\' && name[1] == '\\';
        if (unc && (name.size() == 2 || name[2] == '\\')) return;
        if (!unc && name.size() >= 2 && name[1] == ':' && !((isalpha((unsigned char)name[0])) && name.size() >= 3 && name[2] == '\\')) return;
    }
    c.distinct(hash_str(name, ux));
    if (wide) fW->run(c, name, ux); else fA->run(c, name, ux);
}
static Monitor mon = {"file", "C18: filename <-> URI string round trip, validity, form, documented sizes", "C18", ncases, run_case, nullptr, fuzz_one};
VF_REGISTER(mon);
}
