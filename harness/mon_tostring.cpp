// Monitor "tostring": C05 -- chars-required exact, every capacity from below zero to beyond the
// required length, canaried / fenced destination, charsWritten NULL or not; parsed and derived objects.
#include "vf_obj.hpp"
#include "vf_gen.hpp"
#include <climits>

using namespace vf;
namespace {

static uint64_t ncases(Ctx& c) { return (uint64_t)c.param_int("uris", c.tier == "thorough" ? 400000 : 24000); }

template <class X> void one(Ctx& c, UriBox<X>& b, const Str& origin) {
    typedef typename X::Char Char;
    // C12: recomposition and the size query only read their argument -- everything reachable from it is compared afterwards
    const Str snapBefore = deep_snapshot<X>(b.u);
    struct ConstCheck { Ctx& c; UriBox<X>& b; const Str& snap; const Str& origin; ~ConstCheck() { if (deep_snapshot<X>(b.u) != snap) c.violation("C12", fmt("tostring/%s/const-argument-modified", X::tag()), origin); else c.count("argument_unchanged_after_recomposition"); } } constCheck{c, b, snapBefore, origin};
    // reference: full text via a generous buffer
    int need = -12345; int rc;
    { LibScope ls; rc = X::ToStringCharsRequired(&b.u, &need); }
    c.evaluations++;
    if (rc != URI_SUCCESS || need < 0) { c.violation("C05", fmt("tostring/%s/chars-required-failed", X::tag()), fmt("%s rc=%d need=%d", origin.c_str(), rc, need)); return; }
    std::vector<Char> ref((size_t)need + 40, X::wid('#')); int wr = -7;
    { LibScope ls; rc = X::ToString(ref.data(), &b.u, need + 40, &wr); }
    if (rc != URI_SUCCESS) { c.violation("C05", fmt("tostring/%s/generous-capacity-failed", X::tag()), fmt("%s rc=%d", origin.c_str(), rc)); return; }
    size_t L = xstrlen<X>(ref.data());
    Str text = narrow<X>(ref.data(), ref.data() + L);
    if ((int)L != need) { c.violation("C05", fmt("tostring/%s/chars-required-inexact", X::tag()), fmt("%s text=\"%s\" length=%zu charsRequired=%d", origin.c_str(), esc(text).c_str(), L, need)); return; }
    if (wr != (int)L + 1) c.violation("C05", fmt("tostring/%s/chars-written-wrong", X::tag()), fmt("%s text=\"%s\" charsWritten=%d expected=%zu", origin.c_str(), esc(text).c_str(), wr, L + 1));
    // for parsed objects the text is also known from the model
    if (!b.srcText.empty()) {
        size_t o; if (dfa_uriref(b.srcText, &o)) { Str m = recompose(split(b.srcText)); if (m != text) c.violation("C05", fmt("tostring/%s/length-of-wrong-text", X::tag()), fmt("%s text=\"%s\" model=\"%s\"", origin.c_str(), esc(text).c_str(), esc(m).c_str())); }
    }
    c.distinct(hash_str(text, 77));
    c.count(fmt("len_bucket_%zu", L < 8 ? L : (L < 32 ? 8 : (L < 128 ? 32 : 128))));
    // every capacity
    long lo = -2, hi = (long)L + 3;
    std::vector<long> caps;
    if (L <= 6000) for (long k = lo; k <= hi; k++) caps.push_back(k);
    else {      // very long text: both ends, the 16-bit neighbourhood, and a sample in between
        for (long k = lo; k <= 8; k++) caps.push_back(k); for (long k = (long)L - 6; k <= hi; k++) caps.push_back(k);
        for (long k = 65533; k <= 65539; k++) if (k < (long)L - 6) caps.push_back(k);
        for (int i = 0; i < 24; i++) caps.push_back(9 + (long)c.rng.below((uint32_t)(L - 16)));
        c.count("very_long_texts");
    }
    if (c.rng.chance(1, 16)) { caps.push_back(INT_MIN); caps.push_back((long)L + 1000); }
    // a stated capacity far above the need ("no limit"): the block really has that size (address space only)
    if (c.rng.chance(1, 8)) if (Char* big = (Char*)reserve_block((size_t)INT_MAX * sizeof(Char))) {
        static const int BIG[] = {INT_MAX, INT_MAX - 1, INT_MAX / 2, INT_MAX / 4 + 1, INT_MAX / 4, INT_MAX / 8 + 1, 1 << 24, 65536};
        for (int cap : BIG) for (int variant = 0; variant < 2; variant++) {
            if ((long)cap < (long)L + 1) continue;
            int written = -99; int* wp = variant ? &written : nullptr; big[0] = (Char)'#'; big[L] = (Char)'#';
            { LibScope ls; rc = X::ToString(big, &b.u, cap, wp); }
            c.evaluations++; c.count("capacity_far_above_need");
            Str ctx = fmt("%s text=\"%s\" len=%zu capacity=%d", origin.c_str(), esc(text).c_str(), L, cap);
            if (rc != URI_SUCCESS) { c.violation("C05", fmt("tostring/%s/sufficient-capacity-refused", X::tag()), ctx + fmt(" rc=%d", rc)); continue; }
            if (wp && written != (int)L + 1) c.violation("C05", fmt("tostring/%s/chars-written-wrong", X::tag()), ctx + fmt(" charsWritten=%d", written));
            if (narrow<X>(big, big + L) != text || big[L] != 0) c.violation("C05", fmt("tostring/%s/text-or-terminator-wrong", X::tag()), ctx);
        }
    }
    OutBuf ob;
    for (long cap : caps) {
        for (int variant = 0; variant < 2; variant++) {        // charsWritten NULL / non-NULL
            int mode = (int)((c.case_index + (uint64_t)cap + (uint64_t)variant) & 1);
            size_t capChars = cap > 0 ? (size_t)cap : 0;
            unsigned char pat = (unsigned char)(0x5A + (cap & 7));
            Char* dest = (Char*)ob.make(capChars * sizeof(Char), mode, pat);
            int written = -99; int* wp = variant ? &written : nullptr;
            c.stage((uint64_t)(cap + 10));
            { LibScope ls; rc = X::ToString(dest, &b.u, (int)cap, wp); }
            c.evaluations++;
            long where = 0;
            Str ctx = fmt("%s text=\"%s\" len=%zu capacity=%ld", origin.c_str(), esc(text).c_str(), L, cap);
            if (!ob.canaries_ok(&where)) { c.violation("C05", fmt("tostring/%s/write-outside-buffer", X::tag()), ctx + fmt(" damaged byte offset %ld relative to dest", where)); }
            if (cap >= (long)L + 1) {
                if (rc != URI_SUCCESS) { c.violation("C05", fmt("tostring/%s/sufficient-capacity-refused", X::tag()), ctx + fmt(" rc=%d", rc)); continue; }
                if (wp && written != (int)L + 1) c.violation("C05", fmt("tostring/%s/chars-written-wrong", X::tag()), ctx + fmt(" charsWritten=%d", written));
                Str got = narrow<X>(dest, dest + L);
                if (got != text || dest[L] != 0) c.violation("C05", fmt("tostring/%s/text-or-terminator-wrong", X::tag()), ctx + fmt(" got=\"%s\"", esc(got).c_str()));
                // nothing beyond the terminator needs to be touched: not demanded either way
            } else {
                if (rc != URI_ERROR_TOSTRING_TOO_LONG) { c.violation("C05", fmt("tostring/%s/short-capacity-wrong-code", X::tag()), ctx + fmt(" rc=%d", rc)); }
                if (wp && written != 0) c.violation("C05", fmt("tostring/%s/short-capacity-chars-written", X::tag()), ctx + fmt(" charsWritten=%d", written));
                if (cap >= 1 && dest[0] != 0) c.violation("C05", fmt("tostring/%s/short-capacity-not-empty-string", X::tag()), ctx);
            }
        }
    }
}

// One step further: 129 such segments, 2 164 260 735 characters -- no int can hold that length. Only the size query is made (fast
// build only; nothing is written anywhere). A library that refuses is fine; the pinned one adds up in an int and reports success with
// the sum wrapped to a negative figure, and uriToString with such an object writes far beyond any buffer (independent review,
// DESIGN.md 11.2): recorded finding, the diagnoser confirms the wrapped figure.
template <class X> void beyond_int_max(Ctx& c) {
    typedef typename X::Char Char; typedef typename X::Uri Uri; typedef typename X::Seg Seg;
    const size_t L = ((size_t)1 << 24) - 1; static Char* block = nullptr;
    if (!block) { block = (Char*)malloc((L + 1) * sizeof(Char)); if (!block) { c.count("beyond_int_max_skipped_no_memory"); return; } for (size_t i = 0; i < L; i++) block[i] = X::wid('a'); block[L] = 0; }
    Uri u; memset(&u, 0, sizeof u); std::vector<Seg> segs(129);
    for (size_t i = 0; i < 129; i++) { segs[i].text.first = block; segs[i].text.afterLast = block + L; segs[i].next = i + 1 < 129 ? &segs[i + 1] : nullptr; segs[i].reserved = nullptr; }
    u.pathHead = &segs[0]; u.pathTail = &segs[128];
    long long want = 129LL * (long long)L + 128;
    int need = -5; int rc; { LibScope ls; rc = X::ToStringCharsRequired(&u, &need); } c.evaluations++; c.count("text_beyond_int_max_measured");
    Str what = fmt("hand-filled relative path of 129 segments, text length %lld (INT_MAX + %lld): rc=%d charsRequired=%d", want, want - (long long)INT_MAX, rc, need);
    if (rc != URI_SUCCESS) { c.count("text_beyond_int_max_refused"); return; }
    // success with any figure is the finding: no int equals the length (the sum is signed overflow, so the exact figure is the compiler's)
    c.violation("C05", fmt("tostring/%s/text-longer-than-INT_MAX-measured-as-a-wrapped-figure", X::tag()), what);
}

template <class X> void run(Ctx& c, uint64_t idx) {
    Rng& r = c.rng;
    UriBox<X> b;
    UriGenOpts o; o.maxSegs = 5; o.huge = true;
    Str s;
    for (int tries = 0; tries < 20; tries++) { s = idx < gdegenerate_count() / 7 ? gdegenerate_case(idx * 7 + (uint64_t)tries) : gen_uri(r, o); size_t e; if (dfa_uriref(s, &e)) break; s.clear(); }
    if (b.parse(s) != URI_SUCCESS) { c.count("skipped_invalid"); return; }
    if (!b.faithful()) { c.count("skipped_unfaithful_parse"); return; }
    c.note(fmt("%s tostring \"%s\"", X::tag(), esc(s.substr(0, 200)).c_str()));
    int kind = r.below(5);
    Str origin = "parsed";
    if (kind == 1) { if (b.make_owner() == URI_SUCCESS) { origin = "parsed+owned"; b.srcText.clear(); } }
    else if (kind == 2) { if (b.normalize(r.below(64)) == URI_SUCCESS) { origin = "normalized"; b.srcText.clear(); } }
    if (kind == 3 || kind == 4) {
        UriBox<X> base; Str bs = gen_abs_base(r);
        if (base.parse(bs) == URI_SUCCESS) {
            UriBox<X> d; int rc;
            if (kind == 3) { LibScope ls; rc = X::AddBaseUri(&d.u, &b.u, &base.u); }
            else { LibScope ls; rc = b.u.scheme.first ? X::RemoveBaseUri(&d.u, &b.u, &base.u, r.coin()) : X::AddBaseUri(&d.u, &b.u, &base.u); }
            if (rc == URI_SUCCESS) { d.live = true; c.count(kind == 3 ? "objects_resolved" : "objects_reference_created"); one<X>(c, d, (kind == 3 ? "resolved(" : "derived(") + esc(s) + " , " + esc(bs) + ")"); return; }
        }
    }
    // a flag value the library itself never sets together with a host (Uri.h says so), but which a caller filling a structure by hand
    // easily does: the text is not judged (no model says what it should be), only that the reported size, the written size and the
    // capacity behaviour agree with each other
    if (r.chance(1, 24) && b.u.hostText.first && b.u.pathHead) { b.u.absolutePath = URI_TRUE; b.srcText.clear(); origin += "+absolutePath-set-by-hand"; c.count("hand_set_absolute_path_with_host"); }
    c.count("objects_" + origin);
    one<X>(c, b, origin + "(" + esc(s) + ")");
    if (idx % 2000 == 1) c.sample("uri", esc(s));
}

// A structure filled in by hand whose text is exactly INT_MAX (and INT_MAX - 1) characters long: 128 path segments that all view one
// block of 2^24 - 1 characters (measuring only -- nothing of that size is ever written). The largest length an int can report is
// still reported exactly.
template <class X> void longest(Ctx& c, int shorter) {
    typedef typename X::Char Char; typedef typename X::Uri Uri; typedef typename X::Seg Seg;
    const size_t L = ((size_t)1 << 24) - 1; static Char* block = nullptr;
    if (!block) { block = (Char*)malloc((L + 1) * sizeof(Char)); if (!block) { c.count("longest_skipped_no_memory"); return; } for (size_t i = 0; i < L; i++) block[i] = X::wid('a'); block[L] = 0; }
    Uri u; memset(&u, 0, sizeof u); std::vector<Seg> segs(128);
    for (size_t i = 0; i < 128; i++) { segs[i].text.first = block; segs[i].text.afterLast = block + L - ((int)i < shorter ? 1 : 0); segs[i].next = i + 1 < 128 ? &segs[i + 1] : nullptr; segs[i].reserved = nullptr; }
    u.pathHead = &segs[0]; u.pathTail = &segs[127];
    long long want = 128LL * (long long)L + 127 - shorter;
    int need = -5; int rc; { LibScope ls; rc = X::ToStringCharsRequired(&u, &need); } c.evaluations++; c.count("longest_text_measured");
    if (rc != URI_SUCCESS || (long long)need != want) c.violation("C05", fmt("tostring/%s/chars-required-inexact", X::tag()), fmt("hand-filled relative path of 128 segments, text length %lld (INT_MAX - %lld): rc=%d charsRequired=%d", want, (long long)INT_MAX - want, rc, need));
    // writing it into a small buffer is refused cleanly
    Char small[8]; small[0] = X::wid('x'); int wr = -3; { LibScope ls; rc = X::ToString(small, &u, 8, &wr); } c.evaluations++;
    if (rc != URI_ERROR_TOSTRING_TOO_LONG || wr != 0 || small[0] != 0) c.violation("C05", fmt("tostring/%s/short-capacity-wrong-code", X::tag()), fmt("hand-filled text of %lld characters into 8: rc=%d charsWritten=%d", want, rc, wr));
}
static void run_case(Ctx& c, uint64_t idx) {
    if (idx < 4) { c.note("tostring longest text"); if (idx & 1) longest<ApiW>(c, (int)(idx >> 1)); else longest<ApiA>(c, (int)(idx >> 1)); c.distinct(4242 + idx);
        if (idx < 2 && c.build == "fast") { if (idx & 1) beyond_int_max<ApiW>(c); else beyond_int_max<ApiA>(c); }
        return; }
    run<ApiA>(c, idx); run<ApiW>(c, idx); }
template <class X> void fuzz_x(Ctx& c, unsigned f, const Str& s) {
    UriBox<X> b; if (b.parse(s) != URI_SUCCESS || !b.faithful()) return;
    Str origin = "parsed";
    if (f & 4) { if (b.make_owner() == URI_SUCCESS) { origin = "parsed+owned"; b.srcText.clear(); } }
    else if (f & 8) { if (b.normalize(f >> 4) == URI_SUCCESS) { origin = "normalized"; b.srcText.clear(); } }
    one<X>(c, b, origin + "(" + esc(s) + ")");
}
static void fuzz_one(Ctx& c, const unsigned char* d, size_t n) {
    if (n < 1) return; if (n > 200) n = 200; unsigned f = d[0]; Str s((const char*)d + 1, n - 1);
    if (f & 1) fuzz_x<ApiW>(c, f, s); else fuzz_x<ApiA>(c, f, s);
}
static Monitor mon = {"tostring", "C05: recomposition into buffers of every capacity, canaries and fences", "C05", ncases, run_case, nullptr, fuzz_one};
VF_REGISTER(mon);
}
