// Memory instruments: recording/failing memory manager (ledger), libc interposer
// (fast build, -Wl,--wrap), guarded input copies, canaried/guarded output buffers.
#ifndef VF_MEM_HPP
#define VF_MEM_HPP 1
extern "C" {
#include <uriparser/UriBase.h>
}
#include <unordered_map>
#include <map>
#include <sys/mman.h>
#include "vf_common.hpp"

namespace vf {

void* raw_malloc(size_t n);     // the real allocator, never counted / failed by the interposer
void raw_free(void* p);

// ---------------------------------------------------------------- ledger manager
struct Ledger {
    UriMemoryManager mm;
    int id = 0;
    std::unordered_map<void*, size_t> live;
    uint64_t requests = 0;          // malloc/calloc/realloc/reallocarray calls with a non-zero request
    uint64_t releases = 0;
    uint64_t free_null = 0;
    uint64_t bad_free = 0;          // release of a pointer this manager does not own
    Str bad_free_note;
    uint64_t failed = 0;
    long fail_at = 0;               // 1-based request number to fail; 0 = never
    bool fail_from = false;         // also fail every later request
    bool yield_in_cb = false;       // sched_yield / short sleeps inside callbacks (C20)
    uint64_t yield_state = 1;
    size_t live_bytes = 0, peak_live = 0;
    bool poison_on_free = true;
    // quarantine: released blocks are kept (not handed back to the allocator) until drain_quarantine(), so that a second release
    // of the same pointer is *recorded* as such instead of being undefined behaviour; with poison_on_free off the released
    // nodes even stay readable, so a walk over an already released list ends in recorded double releases, not in a crash
    bool quarantine = false;
    std::unordered_map<void*, size_t> dead;
    uint64_t double_release = 0;
    void* last_bad_ptr = nullptr;
    void drain_quarantine();
    ~Ledger();

    Ledger();
    Ledger(const Ledger&) = delete;
    UriMemoryManager* mgr() { return &mm; }
    void reset_schedule() { fail_at = 0; fail_from = false; requests = 0; failed = 0; }
    void arm(long k, bool from) { fail_at = k; fail_from = from; requests = 0; failed = 0; }
    bool should_fail();
    void* do_alloc(size_t n, bool zero);
    void do_free(void* p);
    size_t outstanding() const { return live.size(); }
    Str describe_live() const;
    void release_all();             // harness cleanup after a reported leak
};

// ---------------------------------------------------------------- libc interposer (fast build)
struct LibcWatch {
    bool available;                 // true when linked with --wrap
    // state, only meaningful while a LibScope is active
    uint64_t allocs = 0, frees = 0, bad_free = 0, failed = 0;
    long fail_at = 0; bool fail_from = false; uint64_t requests = 0;
    std::unordered_map<void*, size_t> live;
    void reset() { allocs = frees = bad_free = failed = 0; fail_at = 0; fail_from = false; requests = 0; }
    // clear() of an unordered_map walks all buckets: after one case with 70 000 library allocations every later clear would cost that much
    void clear_live() { if (live.bucket_count() > 2048) std::unordered_map<void*, size_t>().swap(live); else live.clear(); }
};
LibcWatch& libc_watch();
extern thread_local int tl_in_lib;      // >0 while a library call is in progress on this thread
extern thread_local int tl_in_cb;       // >0 while inside one of our manager callbacks
struct LibScope { LibScope() { tl_in_lib++; } ~LibScope() { tl_in_lib--; } };
struct CbScope { CbScope() { tl_in_cb++; } ~CbScope() { tl_in_cb--; } };

// ---------------------------------------------------------------- guarded memory
// A page run with PROT_NONE pages on both sides. Data can be placed flush against
// either fence. In sanitizer builds exact-size heap blocks are used instead.
// A block whose *stated* size can be honoured without committing memory: address space only, pages appear when touched.
// Used where a caller states a capacity far above its need ("no limit"): the block really is that large, so a library
// that touched more of it than the text needs would still be within what it was told. One block per size per process.
inline void* reserve_block(size_t bytes) {
    static std::map<size_t, void*> cache;
    auto it = cache.find(bytes); if (it != cache.end()) return it->second;
    void* p = mmap(nullptr, bytes, PROT_READ | PROT_WRITE, MAP_PRIVATE | MAP_ANONYMOUS | MAP_NORESERVE, -1, 0);
    if (p == MAP_FAILED) p = nullptr;
    cache[bytes] = p; return p;
}

struct GuardRegion {
    char* base = nullptr;     // first usable byte
    size_t usable = 0;        // bytes between the fences (multiple of page size)
    bool ro = false;
    explicit GuardRegion(size_t min_bytes);
    ~GuardRegion();
    GuardRegion(const GuardRegion&) = delete;
    void* place_end(const void* data, size_t nbytes);     // data ends at the upper fence
    void* place_start(const void* data, size_t nbytes);   // data starts at the lower fence
    void protect_ro();
    void unprotect();
    bool contains(const void* p) const { return (const char*)p >= base && (const char*)p <= base + usable; }
};
bool build_has_sanitizer();     // true in asan/tsan builds: use exact heap blocks

// A copy of an input range placed so that any access outside it faults.
struct GuardedInput {
    void* ptr = nullptr; size_t nbytes = 0; bool heap = false; GuardRegion* region = nullptr; Str snapshot;
    GuardedInput() {}
    ~GuardedInput();
    GuardedInput(const GuardedInput&) = delete;
    // where: 0 = flush against upper fence, 1 = flush against lower fence
    void set(const void* data, size_t n, int where);
    void freeze();      // make read-only (fast build: mprotect; sanitizer build: no-op)
    void thaw();
    bool unchanged() const { return nbytes == 0 || memcmp(ptr, snapshot.data(), nbytes) == 0; }
};

// Output buffer of `cap_bytes` with canaries on both sides (mode 0) or flush against a
// fence / exact heap block (mode 1).
struct OutBuf {
    char* block = nullptr; size_t block_bytes = 0; char* dest = nullptr; size_t cap_bytes = 0; int mode = 0; unsigned char pat = 0;
    GuardRegion* region = nullptr;
    static const size_t PAD = 64;
    OutBuf() {}
    ~OutBuf();
    OutBuf(const OutBuf&) = delete;
    void* make(size_t cap, int mode_, unsigned char pattern);
    // returns -1 if intact, else offset (relative to dest, may be negative-as-size_t wrap) of first damaged canary byte
    bool canaries_ok(long* where) const;
    // bytes inside [dest,dest+cap) still holding the fill pattern from index i on?
    bool untouched_from(size_t i) const;
};

} // namespace vf
#endif
