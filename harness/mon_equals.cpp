// Monitor "equals": C11 -- uriEqualsUri on near-duplicate families of parsed URIs against the
// component-wise model (IP hosts by value, absent != empty), plus reflexive/symmetric/transitive/NULL clauses.
#include "vf_obj.hpp"
#include "vf_gen.hpp"
#include <memory>

using namespace vf;
namespace {

static uint64_t ncases(Ctx& c) { return (uint64_t)c.param_int("families", c.tier == "thorough" ? 400000 : 12000); }

static void family_of(Rng& r, const Str& seed, StrVec* out) {
    Comp b = split(seed);
    std::vector<Comp> v; v.push_back(b);
    auto add = [&](Comp x) { v.push_back(x); };
    { Comp x = b; x.hasScheme = !x.hasScheme; if (x.hasScheme) x.scheme = "s"; else x.scheme.clear(); add(x); }
    if (b.hasScheme) { Comp x = b; x.scheme[0] = (char)(x.scheme[0] ^ 0x20); add(x); x = b; x.scheme += "x"; add(x); }
    if (b.hasAuth) {
        { Comp x = b; x.hasUser = !x.hasUser; x.user = x.hasUser ? "" : ""; add(x); }
        { Comp x = b; x.hasUser = true; x.user = b.user + "u"; add(x); }
        { Comp x = b; x.hasPort = !x.hasPort; x.port = ""; add(x); }
        { Comp x = b; x.hasPort = true; x.port = b.port + "1"; add(x); }
        // the ports that "mean nothing" for some scheme (80, 443, 21 ...): an explicit default port is a different URI all the same
        { static const char* const DP[] = {"80", "443", "21", "8080", "0", "080"}; for (const char* dp : DP) { Comp x = b; x.hasPort = true; x.port = dp; add(x); } }
        if (b.hostKind == HK_REGNAME) { Comp x = b; x.host += "x"; add(x); x = b; x.host = ""; add(x); x = b; if (!x.host.empty()) { x.host[0] = (char)toupper((unsigned char)x.host[0]); add(x); } }
        if (b.hostKind == HK_IP4) { Comp x = b; x.host = "1.2.3.5"; unsigned char q[4]; decode_ip4(x.host, q); x.ip.assign((char*)q, 4); add(x); x = b; x.hostKind = HK_REGNAME; x.host = b.host + "x"; x.ip.clear(); add(x); }
        if (b.hostKind == HK_IP6) {
            // same address written differently: equal by value
            Comp x = b; x.host = render_ip6((const unsigned char*)b.ip.data()); add(x);
            x = b; x.host = render_ip6((const unsigned char*)b.ip.data()); for (auto& ch : x.host) ch = (char)toupper((unsigned char)ch); add(x);
            x = b; unsigned char q[16]; memcpy(q, b.ip.data(), 16); q[15] ^= 1; x.ip.assign((char*)q, 16); x.host = render_ip6(q); add(x);
        }
        if (b.hostKind == HK_FUTURE) { Comp x = b; x.host += "y"; add(x); x = b; x.host[0] = (char)(x.host[0] ^ 0x20); add(x);
            // the same characters as a registered name: different host kind, identical host text
            x = b; x.hostKind = HK_REGNAME; add(x); }
        if (b.hostKind == HK_REGNAME) { Comp x = b; x.hostKind = HK_FUTURE; add(x); x = b; x.hostKind = HK_FUTURE; x.host = "v1." + (b.host.empty() ? Str("x") : b.host); add(x); x.hostKind = HK_REGNAME; add(x); }
        if (b.hostKind == HK_IP4) { Comp x = b; x.hostKind = HK_IP6; x.host = "::" + b.host; add(x); x = b; x.hostKind = HK_FUTURE; x.host = "v4." + b.host; add(x); x.hostKind = HK_REGNAME; add(x); }
        { Comp x = b; x.hasAuth = false; x.hasUser = x.hasPort = false; x.hostKind = HK_NONE; x.host.clear(); x.ip.clear(); x.user.clear(); x.port.clear(); add(x); }
    } else {
        Comp x = b; x.hasAuth = true; x.hostKind = HK_REGNAME; x.host = ""; if (!x.path.empty() && x.path[0] != '/') x.path = "/" + x.path; add(x);
        x.host = "h"; add(x);
        x = b; if (!x.path.empty() && x.path[0] == '/') x.path = x.path.substr(1); else x.path = "/" + x.path; add(x);   // "/a" versus "a"
    }
    { Comp x = b; x.path += "/"; add(x); x = b; x.path += "/x"; add(x); x = b; x.path += "x"; add(x); }
    { size_t p = b.path.rfind('/'); if (p != Str::npos) { Comp x = b; x.path = b.path.substr(0, p); add(x); } }
    if (!b.path.empty()) { Comp x = b; size_t p = r.below((uint32_t)x.path.size()); if (x.path[p] != '/' && x.path[p] != '%') { x.path[p] = x.path[p] == 'q' ? 'r' : 'q'; add(x); } }
    { Comp x = b; x.hasQuery = !x.hasQuery; x.query = ""; add(x); x = b; x.hasQuery = true; x.query = b.query + "k"; add(x); }
    { Comp x = b; x.hasFrag = !x.hasFrag; x.frag = ""; add(x); x = b; x.hasFrag = true; x.frag = b.frag + "k"; add(x); }
    { Comp x = b; std::swap(x.query, x.frag); std::swap(x.hasQuery, x.hasFrag); add(x); }
    // a component that is another member's plus 256 (or 65536) characters: equal only to a comparison that keeps lengths in 8 / 16 bits
    if (r.chance(1, 6)) { Str pad(r.chance(1, 4) ? 65536 : 256, 'a'); Comp x = b; int w = (int)r.below(4);
        if (w == 0) { x.hasQuery = true; x.query = b.query + pad; } else if (w == 1) { x.hasFrag = true; x.frag = b.frag + pad; } else if (w == 2) x.path += (x.path.empty() && x.hasAuth ? "/" : "") + pad; else if (x.hasAuth) { x.hasUser = true; x.user = b.user + pad; } add(x); }
    // one percent-encoded triplet with its hex letters in the other case, in whichever component has one: not the same text
    { Comp x = b; Str* fields[] = {&x.user, &x.host, &x.path, &x.query, &x.frag}; for (Str* f : fields) { size_t p = f->find('%'); while (p != Str::npos && p + 2 < f->size()) { char& h1 = (*f)[p + 1]; char& h2 = (*f)[p + 2];
          if (isalpha((unsigned char)h1) || isalpha((unsigned char)h2)) { Comp y = x; if (isalpha((unsigned char)h1)) h1 = (char)(h1 ^ 0x20); else h2 = (char)(h2 ^ 0x20); add(x); x = y; break; } p = f->find('%', p + 1); } } }
    std::set<Str> seen;
    for (const Comp& x : v) {
        Str t;      // render with the host text as written (not the canonical IPv6 form), to get different spellings of one address
        if (x.hasScheme) { t += x.scheme; t += ':'; }
        if (x.hasAuth) { t += "//"; if (x.hasUser) { t += x.user; t += '@'; } if (x.hostKind == HK_IP6 || x.hostKind == HK_FUTURE) t += "[" + x.host + "]"; else t += x.host; if (x.hasPort) { t += ':'; t += x.port; } }
        t += x.path; if (x.hasQuery) { t += '?'; t += x.query; } if (x.hasFrag) { t += '#'; t += x.frag; }
        size_t e; if (dfa_uriref(t, &e) && seen.insert(t).second) out->push_back(t);
    }
}

template <class X> void run(Ctx& c, const StrVec& fam) {
    std::vector<std::unique_ptr<UriBox<X>>> box; std::vector<Comp> comps; std::vector<Str> snaps;
    for (const Str& t : fam) {
        std::unique_ptr<UriBox<X>> b(new UriBox<X>());
        if (b->parse(t) != URI_SUCCESS) { c.count("parse_failed"); continue; }
        if (!b->faithful()) { c.count("skipped_unfaithful_parse"); continue; }
        if (c.rng.chance(1, 4)) b->make_owner();
        comps.push_back(split(t)); snaps.push_back(deep_snapshot<X>(b->u)); box.push_back(std::move(b));
    }
    size_t n = box.size();
    c.note(fmt("%s equals family of %zu around \"%s\"", X::tag(), n, esc(fam[0].substr(0, 150)).c_str()));
    std::vector<std::vector<char>> eq(n, std::vector<char>(n, 0));
    for (size_t i = 0; i < n; i++) for (size_t j = 0; j < n; j++) {
        int r; { LibScope ls; r = X::EqualsUri(&box[i]->u, &box[j]->u); }
        c.evaluations++; eq[i][j] = (char)(r != 0);
        bool want = comp_diff(comps[i], comps[j]).empty();
        if ((r != 0) != want) {
            Str d = comp_diff(comps[i], comps[j]);
            c.violation("C11", fmt("equals/%s/%s/%s", X::tag(), want ? "says-different-for-identical" : "says-equal-for-different", want ? "x" : d.c_str()),
                        fmt("a=\"%s\" b=\"%s\" library=%d", esc(box[i]->srcText).c_str(), esc(box[j]->srcText).c_str(), r));
        } else c.count(want ? "agree_equal" : "agree_different");
        if (r != 0 && r != 1) c.violation("C11", fmt("equals/%s/result-not-boolean", X::tag()), fmt("a=\"%s\" b=\"%s\" library=%d", esc(box[i]->srcText).c_str(), esc(box[j]->srcText).c_str(), r));
        c.distinct(hash_str(box[i]->srcText + "\x01" + box[j]->srcText));
    }
    for (size_t i = 0; i < n; i++) {
        if (!eq[i][i]) c.violation("C11", fmt("equals/%s/not-reflexive", X::tag()), fmt("a=\"%s\"", esc(box[i]->srcText).c_str()));
        for (size_t j = 0; j < i; j++) if (eq[i][j] != eq[j][i]) c.violation("C11", fmt("equals/%s/not-symmetric", X::tag()), fmt("a=\"%s\" b=\"%s\"", esc(box[i]->srcText).c_str(), esc(box[j]->srcText).c_str()));
    }
    for (size_t i = 0; i < n; i++) for (size_t j = 0; j < n; j++) if (eq[i][j]) for (size_t k = 0; k < n; k++) if (eq[j][k] && !eq[i][k])
        c.violation("C11", fmt("equals/%s/not-transitive", X::tag()), fmt("a=\"%s\" b=\"%s\" c=\"%s\"", esc(box[i]->srcText).c_str(), esc(box[j]->srcText).c_str(), esc(box[k]->srcText).c_str()));
    for (size_t i = 0; i < n; i++) if (deep_snapshot<X>(box[i]->u) != snaps[i]) c.violation("C11", fmt("equals/%s/argument-modified", X::tag()), fmt("a=\"%s\"", esc(box[i]->srcText).c_str()));
    // twins: the same text parsed out of two larger buffers that go on differently behind the range (an empty component at the very end
    // of the URI must not be compared by what happens to follow it in memory), borrowed and owned
    for (size_t i = 0; i < n && i < 6; i++) {
        const Str& t = box[i]->srcText; typename X::S b1 = widen<X>(t + "Xq#1:/"), b2 = widen<X>(t + "?y@[2]%");
        typename X::Uri u1, u2; const typename X::Char* ep; int r1, r2;
        { LibScope ls; r1 = X::ParseSingleUriEx(&u1, b1.data(), b1.data() + t.size(), &ep); r2 = X::ParseSingleUriEx(&u2, b2.data(), b2.data() + t.size(), &ep); }
        if (r1 == URI_SUCCESS && r2 == URI_SUCCESS) {
            if (i & 1) { LibScope ls; X::MakeOwner(&u2); }
            int e1, e2, e3; { LibScope ls; e1 = X::EqualsUri(&u1, &u2); e2 = X::EqualsUri(&u2, &u1); e3 = X::EqualsUri(&box[i]->u, &u1); } c.evaluations += 3;
            if (!e1 || !e2 || !e3) c.violation("C11", fmt("equals/%s/twins-in-different-buffers-not-equal", X::tag()), fmt("a=b=\"%s\" equals(a,b)=%d equals(b,a)=%d equals(separate,a)=%d", esc(t).c_str(), e1, e2, e3));
            else c.count("twins_equal");
        }
        { LibScope ls; if (r1 == URI_SUCCESS) X::FreeUriMembers(&u1); if (r2 == URI_SUCCESS) X::FreeUriMembers(&u2); }
    }
    // wchar_t only: an owned copy in which one character is replaced by a character above U+00FF with the same low byte (no parser
    // produces it, a caller filling in a structure can): never equal to the original
    if (sizeof(typename X::Char) > 1) for (size_t i = 0; i < n && i < 4; i++) {
        UriBox<X> m; if (m.parse(box[i]->srcText) != URI_SUCCESS || m.make_owner() != URI_SUCCESS) continue;
        typename X::Range* rs[] = {&m.u.scheme, &m.u.userInfo, &m.u.hostText, &m.u.portText, &m.u.query, &m.u.fragment}; std::vector<typename X::Char*> pos;
        if (m.u.hostData.ip4 || m.u.hostData.ip6 || m.u.hostData.ipFuture.first) rs[2] = nullptr;
        for (auto* rg : rs) if (rg && rg->first) for (const typename X::Char* q = rg->first; q < rg->afterLast; q++) pos.push_back((typename X::Char*)q);
        for (auto* sg = m.u.pathHead; sg; sg = sg->next) for (const typename X::Char* q = sg->text.first; q < sg->text.afterLast; q++) pos.push_back((typename X::Char*)q);
        if (pos.empty()) continue;
        typename X::Char* q = pos[c.rng.below((uint32_t)pos.size())]; *q = (typename X::Char)((unsigned)*q | (c.rng.coin() ? 0x100u : 0x10000u));
        int e1, e2; { LibScope ls; e1 = X::EqualsUri(&box[i]->u, &m.u); e2 = X::EqualsUri(&m.u, &box[i]->u); } c.evaluations += 2;
        if (e1 || e2) c.violation("C11", fmt("equals/%s/wide-character-equal-to-its-low-byte", X::tag()), fmt("a=\"%s\" b = a with one character or-ed with 0x100/0x10000: equals=%d/%d", esc(box[i]->srcText).c_str(), e1, e2));
        else c.count("wide_modified_differs");
    }
    // what a failed make-owner / normalise leaves behind (components reverted to NULL, an address block without host text ...) is still a
    // structure, and comparing two of them is still component-wise identity
    {
        Ledger fl; std::vector<std::unique_ptr<UriBox<X>>> dmg;
        for (size_t i = 0; i < n && dmg.size() < 6; i++) {
            std::unique_ptr<UriBox<X>> d(new UriBox<X>()); if (d->parse(box[i]->srcText, &fl) != URI_SUCCESS) continue;
            fl.arm((long)(1 + (c.case_index + i) % 5), (i & 1) != 0); int rc; { LibScope ls; rc = (i & 2) ? X::NormalizeSyntaxExMm(&d->u, 63, fl.mgr()) : X::MakeOwnerMm(&d->u, fl.mgr()); }
            bool hit = fl.failed > 0; fl.fail_at = 0; fl.fail_from = false; fl.failed = 0;
            if (hit && rc != URI_SUCCESS) dmg.push_back(std::move(d));
        }
        for (size_t i = 0; i < dmg.size(); i++) {
            for (size_t j = 0; j < dmg.size(); j++) { int r; { LibScope ls; r = X::EqualsUri(&dmg[i]->u, &dmg[j]->u); } c.evaluations++;
                bool same = struct_key<X>(dmg[i]->u) == struct_key<X>(dmg[j]->u);
                if ((r != 0) != same) c.violation("C11", fmt("equals/%s/after-failed-operation/%s", X::tag(), r ? "equal-but-a-component-differs" : "all-components-identical-not-equal"), fmt("a: failed operation on \"%s\"; b: failed operation on \"%s\"", esc(dmg[i]->srcText).c_str(), esc(dmg[j]->srcText).c_str()));
                else c.count("after_failed_operation_pairs_agree"); }
            for (size_t j = 0; j < n && j < 8; j++) { int r; { LibScope ls; r = X::EqualsUri(&dmg[i]->u, &box[j]->u); } c.evaluations++;
                bool same = struct_key<X>(dmg[i]->u) == struct_key<X>(box[j]->u);
                if ((r != 0) != same) c.violation("C11", fmt("equals/%s/after-failed-operation-vs-parsed/%s", X::tag(), r ? "equal-but-a-component-differs" : "all-components-identical-not-equal"), fmt("a: failed operation on \"%s\"; b=\"%s\"", esc(dmg[i]->srcText).c_str(), esc(box[j]->srcText).c_str())); }
        }
        dmg.clear(); fl.release_all();
    }
    if (n) {
        int a, b2, d; { LibScope ls; a = X::EqualsUri(nullptr, nullptr); b2 = X::EqualsUri(&box[0]->u, nullptr); d = X::EqualsUri(nullptr, &box[0]->u); }
        c.evaluations += 3;
        if (!a) c.violation("C11", fmt("equals/%s/null-null-not-equal", X::tag()), "uriEqualsUri(NULL,NULL) is false");
        if (b2 || d) c.violation("C11", fmt("equals/%s/null-equals-non-null", X::tag()), fmt("a=\"%s\"", esc(box[0]->srcText).c_str()));
    }
}

// Operands that alias: several URIs parsed from prefixes of ONE buffer, so that corresponding components start at the same
// address and differ only in where they end (a comparison that short-cuts on pointer identity goes wrong exactly here).
template <class X> void run_aliased(Ctx& c, const Str& text) {
    typedef typename X::Char Char; typedef typename X::Uri Uri;
    typename X::S buf = widen<X>(text);
    struct Obj { Uri u; Str t; Comp m; };
    std::vector<std::unique_ptr<Obj>> v;
    for (size_t m = text.size() + 1; m-- > 0 && v.size() < 7;) {
        Str t = text.substr(0, m); size_t e; if (!dfa_uriref(t, &e)) continue;
        std::unique_ptr<Obj> o(new Obj()); const Char* ep; int rc; { LibScope ls; rc = X::ParseSingleUriEx(&o->u, buf.data(), buf.data() + m, &ep); }
        if (rc != URI_SUCCESS) continue;
        if (!faithful_uri<X>(o->u, t)) { LibScope ls; X::FreeUriMembers(&o->u); c.count("skipped_unfaithful_parse"); continue; }
        o->t = t; o->m = split(t); v.push_back(std::move(o));
    }
    c.note(fmt("%s equals aliased prefixes of \"%s\"", X::tag(), esc(text.substr(0, 150)).c_str()));
    for (size_t i = 0; i < v.size(); i++) for (size_t j = 0; j < v.size(); j++) {
        int r; { LibScope ls; r = X::EqualsUri(&v[i]->u, &v[j]->u); } c.evaluations++;
        bool want = comp_diff(v[i]->m, v[j]->m).empty();
        if ((r != 0) != want) c.violation("C11", fmt("equals/%s/aliased/%s", X::tag(), want ? "says-different-for-identical" : "says-equal-for-different"), fmt("both parsed from one buffer: a=\"%s\" b=\"%s\" library=%d", esc(v[i]->t).c_str(), esc(v[j]->t).c_str(), r));
        else c.count("aliased_pairs_agree");
    }
    // an aliased operand against a separately parsed copy of the other text (transitivity across buffers)
    for (size_t i = 0; i + 1 < v.size(); i++) { UriBox<X> sep; if (sep.parse(v[i + 1]->t) != URI_SUCCESS) continue; int r; { LibScope ls; r = X::EqualsUri(&v[i]->u, &sep.u); } c.evaluations++;
        bool want = comp_diff(v[i]->m, v[i + 1]->m).empty();
        if ((r != 0) != want) c.violation("C11", fmt("equals/%s/aliased-vs-separate/%s", X::tag(), want ? "says-different-for-identical" : "says-equal-for-different"), fmt("a=\"%s\" b=\"%s\" library=%d", esc(v[i]->t).c_str(), esc(v[i + 1]->t).c_str(), r)); }
    for (auto& o : v) { LibScope ls; X::FreeUriMembers(&o->u); }
}

static void run_case(Ctx& c, uint64_t idx) {
    Rng& r = c.rng; Str seed;
    for (int t = 0; t < 30; t++) { UriGenOpts o; o.maxSegs = 4; o.longSeg = false; seed = idx < 2000 ? gdegenerate_case(idx * 31 + (uint64_t)t) : gen_uri(r, o); size_t e; if (dfa_uriref(seed, &e)) break; seed = "a://h/p?q#f"; }
    StrVec fam; family_of(r, seed, &fam);
    c.count("family_members", fam.size());
    run<ApiA>(c, fam);
    if (idx % 2 == 0) run<ApiW>(c, fam);
    if (idx % 2) run_aliased<ApiA>(c, seed); else run_aliased<ApiW>(c, seed);
    if (idx % 500 == 1) c.sample("family", esc(seed) + fmt(" (+%zu variants, e.g. ", fam.size() - 1) + esc(fam.size() > 1 ? fam[1] : "") + ")");
}
static Monitor mon = {"equals", "C11: uriEqualsUri over near-duplicate families vs component-wise identity", "C11", ncases, run_case, nullptr};
VF_REGISTER(mon);
}
