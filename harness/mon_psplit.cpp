// Monitor "psplit": C03 -- parsing [first, afterLast) never looks outside the range and leaves no
// residue on failure. Every prefix of every text is parsed (a) as an exact copy flush against an
// inaccessible page (fast build) / exact heap block (sanitizer builds), mapped read-only, and (b) in the
// middle of a larger buffer with varying trailing content; the outcomes must be identical. Failing
// parses are re-run under an allocation-failure schedule and the output is freed 1..3 times.
#include "vf_obj.hpp"
#include "vf_gen.hpp"

using namespace vf;
namespace {

static uint64_t ncases(Ctx& c) { return (uint64_t)c.param_int("texts", c.tier == "thorough" ? 3000000 : 100000); }

template <class X> struct PS {
    typedef typename X::Char Char; typedef typename X::Uri Uri;
    GuardRegion* reg = nullptr; Ledger led;

    Str outcome(Ctx& c, const Char* first, size_t n, const Char* limitLo, const Char* limitHi, const char* how, const Str& shown, UriMemoryManager* mm) {
        Uri u; memset(&u, 0xCD, sizeof u); const Char* ep = nullptr; int rc;
        { LibScope ls; rc = mm ? X::ParseSingleUriExMm(&u, first, first + n, &ep, mm) : X::ParseSingleUriEx(&u, first, first + n, &ep); }
        c.evaluations++;
        Str o = fmt("rc=%d", rc);
        if (rc != URI_SUCCESS) {
            o += fmt(" err=%ld", ep ? (long)(ep - first) : -1L);
            if (ep && (ep < first || ep > first + n)) c.violation("C03", fmt("psplit/%s/error-position-outside-range", X::tag()), fmt("%s text=\"%s\" n=%zu pos=%ld", how, esc(shown).c_str(), n, (long)(ep - first)));
        } else {
            ObjView v = read_uri<X>(u, first, n);
            o += " " + v.c.describe() + fmt(" abs=%d", (int)v.abs);
            auto chk = [&](const char* name, const ObjView::Off& off, const typename X::Range& r) {
                o += fmt(" %s=[%ld,%ld)", name, off.first, off.after);
                if (off.first == -2 && r.first != r.afterLast) c.violation("C03", fmt("psplit/%s/range-outside-input/%s", X::tag(), name), fmt("%s text=\"%s\" n=%zu", how, esc(shown).c_str(), n));
                if (off.first == -2) o.resize(o.rfind(' ')), o += fmt(" %s=<placeholder>", name);
            };
            chk("scheme", v.oScheme, u.scheme); chk("user", v.oUser, u.userInfo); chk("host", v.oHost, u.hostText); chk("port", v.oPort, u.portText); chk("query", v.oQuery, u.query); chk("frag", v.oFrag, u.fragment);
            size_t k = 0; for (const typename X::Seg* s = u.pathHead; s && k < v.oSegs.size(); s = s->next, k++) chk("seg", v.oSegs[k], s->text);
            o += " ip=" + hexs(v.c.ip.data(), v.c.ip.size());
        }
        (void)limitLo; (void)limitHi;
        { LibScope ls; if (mm) X::FreeUriMembersMm(&u, mm); else X::FreeUriMembers(&u); }
        return o;
    }

    void run(Ctx& c, const Str& s) {
        typename X::S w = widen<X>(s); size_t L = w.size();
        if (!build_has_sanitizer() && !reg) reg = new GuardRegion(1 << 16);
        // trailing-content variants for the embedded runs
        std::vector<typename X::S> tails;
        tails.push_back(typename X::S());                                   // 0: the rest of the original text (filled per split point)
        tails.push_back(widen<X>("]]]]:]]]]/]]]]@]]]]]]]]]]]]]]]]"));
        tails.push_back(widen<X>("0123456789.0123456789:0123456789"));
        { Str rnd; for (int i = 0; i < 24; i++) rnd.push_back((char)c.rng.range(1, 255)); tails.push_back(widen<X>(rnd)); }
        tails.push_back(widen<X>("%41%4/?#[::1]:80/a@b"));
        std::vector<Char> big(L + 40 + 8);
        for (size_t i = 0; i <= L; i++) {
            c.stage(i + 1);
            // (a) exact, guarded, read-only
            Str ref;
            if (build_has_sanitizer()) {
                Char* ex = (Char*)malloc(i ? i * sizeof(Char) : 1); memcpy(ex, w.data(), i * sizeof(Char));
                ref = outcome(c, ex, i, ex, ex + i, "exact-heap-block", s, nullptr); free(ex);
            } else {
                bool atStart = (c.case_index + i) & 1;
                Char* p = (Char*)(atStart ? reg->place_start(w.data(), i * sizeof(Char)) : reg->place_end(w.data(), i * sizeof(Char)));
                bool freeze = (c.case_index % 8) == 0 && i % 4 == 0;
                if (freeze) reg->protect_ro();
                ref = outcome(c, p, i, p, p + i, atStart ? "flush-against-lower-fence" : "flush-against-upper-fence", s, (i & 2) ? led.mgr() : nullptr);
                if (freeze) reg->unprotect();
                if (memcmp(p, w.data(), i * sizeof(Char)) != 0) c.violation("C03", fmt("psplit/%s/input-modified", X::tag()), fmt("text=\"%s\" n=%zu", esc(s).c_str(), i));
            }
            // (b) embedded in a larger buffer, trailing content varies
            for (size_t t = 0; t < tails.size(); t++) {
                const typename X::S& tail = t == 0 ? typename X::S(w.begin() + (long)i, w.end()) : tails[t];
                size_t pre = 4;
                for (size_t k = 0; k < pre; k++) big[k] = X::wid((unsigned char)"/:[%"[k]);
                memcpy(big.data() + pre, w.data(), i * sizeof(Char));
                size_t tl = tail.size() < 40 ? tail.size() : 40; if (i + pre + tl > big.size()) tl = big.size() - i - pre;
                for (size_t k = 0; k < tl; k++) big[pre + i + k] = tail[k];
                std::vector<Char> before(big);
                Str got = outcome(c, big.data() + pre, i, big.data(), big.data() + big.size(), "embedded", s, nullptr);
                if (before != big) c.violation("C03", fmt("psplit/%s/input-modified", X::tag()), fmt("text=\"%s\" n=%zu", esc(s).c_str(), i));
                if (got != ref) c.violation("C03", fmt("psplit/%s/outcome-depends-on-what-follows-the-range", X::tag()), fmt("text=\"%s\" n=%zu tail-variant=%zu exact: %s embedded: %s", esc(s).c_str(), i, t, ref.c_str(), got.c_str()));
                else c.count("embedded_outcome_identical");
            }
            if (led.outstanding()) { c.violation("C03", fmt("psplit/%s/residue-after-parse-and-free", X::tag()), fmt("text=\"%s\" n=%zu %s", esc(s).c_str(), i, led.describe_live().c_str())); led.release_all(); }
            if (led.bad_free) { c.violation("C03", fmt("psplit/%s/bad-free", X::tag()), led.bad_free_note); led.bad_free = 0; led.bad_free_note.clear(); }
        }
        // (e) failures (syntax, or out of memory at every k): nothing remains allocated; free 1..3 times is harmless
        {
            Ledger fl; Uri u; const Char* ep;
            { LibScope ls; (void)X::ParseSingleUriExMm(&u, w.data(), w.data() + L, &ep, fl.mgr()); }
            uint64_t N = fl.requests; { LibScope ls; X::FreeUriMembersMm(&u, fl.mgr()); }
            if (fl.outstanding()) { c.violation("C03", fmt("psplit/%s/residue-after-parse-and-free", X::tag()), fmt("text=\"%s\"", esc(s).c_str())); fl.release_all(); }
            for (uint64_t k = 1; k <= N && k <= 40; k++) for (int from = 0; from < 2; from++) {
                fl.arm((long)k, from != 0); memset(&u, 0xCD, sizeof u); int rc;
                { LibScope ls; rc = X::ParseSingleUriExMm(&u, w.data(), w.data() + L, &ep, fl.mgr()); }
                fl.arm(0, false); c.evaluations++;
                if (rc == URI_SUCCESS) { LibScope ls; X::FreeUriMembersMm(&u, fl.mgr()); continue; }     // failure not reached in fail-once mode after a syntax stop
                if (fl.outstanding()) { c.violation("C03", fmt("psplit/%s/residue-after-failed-parse", X::tag()), fmt("text=\"%s\" rc=%d fail-at=%llu %s", esc(s).c_str(), rc, (unsigned long long)k, fl.describe_live().c_str())); fl.release_all(); }
                int frees = 1 + (int)((k + (uint64_t)from) % 3);
                for (int f = 0; f < frees; f++) { LibScope ls; X::FreeUriMembersMm(&u, fl.mgr()); }
                if (fl.bad_free || fl.outstanding()) { c.violation("C03", fmt("psplit/%s/free-after-failed-parse-not-harmless", X::tag()), fmt("text=\"%s\" rc=%d fail-at=%llu %s", esc(s).c_str(), rc, (unsigned long long)k, fl.bad_free_note.c_str())); fl.bad_free = 0; fl.bad_free_note.clear(); fl.release_all(); }
                c.count("failed_parses_freed_repeatedly");
            }
        }
    }
};

static PS<ApiA>* pA; static PS<ApiW>* pW;
static void run_case(Ctx& c, uint64_t idx) {
    if (!pA) { pA = new PS<ApiA>(); pW = new PS<ApiW>(); }
    Rng& r = c.rng; Str s; const char* gen;
    switch (r.below(7)) {
    case 0: gen = "walk"; s = gwalk(r, 50, true); break;
    case 1: gen = "uri"; s = gen_uri(r); break;
    case 2: gen = "uri-mutated"; s = mutate(r, gen_uri(r), r.range(1, 2)); break;
    case 3: gen = "cover"; s = gcover_case(r.below((uint32_t)gcover_count()), r); break;
    case 4: gen = "iplit"; s = Str(r.coin() ? "//[" : "s://u@[") + (r.coin() ? gen_ip6(r) : mutate(r, gen_ip6(r), 1)) + (r.chance(3, 4) ? "]" : "") + (r.coin() ? ":80/p" : ""); break;
    case 5: gen = "ip4-host"; { static const char* h[] = {"//1.2.3.4", "//255.255.255.255:8", "//1.2.3", "//1.2.3.4.5", "//256.1.1.1", "//1.2.3.04", "//44.1", "//[::44.1", "//[::1.2.3.4]", "//[1:2:3:4:5:6:1.2.3.4]"}; s = h[r.below(10)]; if (r.coin()) s = mutate(r, s, 1); } break;
    default: gen = "degenerate"; s = gdegenerate_case(r.below((uint32_t)gdegenerate_count())); break;
    }
    if (s.size() > 90) s.resize(90);
    c.count(Str("gen_") + gen); c.distinct(hash_str(s));
    c.note(fmt("psplit \"%s\"", esc(s).c_str()));
    if (idx % 2) pW->run(c, s); else pA->run(c, s);
    if (idx % 8000 == 3) c.sample(gen, esc(s));
}
static Monitor mon = {"psplit", "C03: every prefix parsed exact+guarded vs embedded with varying tails; no residue on failure", "C03", ncases, run_case, nullptr};
VF_REGISTER(mon);
}
