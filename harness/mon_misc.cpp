// Monitor "mm": C13 -- incomplete memory managers are rejected with the dedicated code before any slot is
// touched, by every function that takes a manager.
// Monitor "statics": C20 -- a single-threaded tour through the whole public API while the library's own
// writable segments (.data/.bss of liburiparser_v.so) are write-protected; any store to library static
// storage faults with the PC inside the library.
#include "vf_obj.hpp"
#include "vf_gen.hpp"
#include <link.h>
#include <sys/mman.h>
#include <unistd.h>

using namespace vf;
namespace {

// ---------------------------------------------------------------- mm
static uint64_t mm_ncases(Ctx& c) { return (uint64_t)c.param_int("cases", c.tier == "thorough" ? 60000 : 3000); }

template <class X> void mm_run(Ctx& c, uint64_t idx) {
    typedef typename X::Char Char; typedef typename X::Uri Uri; typedef typename X::QList QList;
    Rng& r = c.rng;
    Ledger good; Ledger probe;              // `probe` backs the incomplete manager: none of its slots may be called
    UriMemoryManager inc = probe.mm;
    // which slots are NULL: singles, pairs, and occasionally everything
    unsigned shape = (unsigned)(idx % 16); unsigned nullMask;
    if (shape < 5) nullMask = 1u << shape; else if (shape < 15) { static const unsigned pr[10] = {3, 5, 9, 17, 6, 10, 18, 12, 20, 24}; nullMask = pr[shape - 5]; } else nullMask = 31;
    if (nullMask == 31 && (idx & 16)) inc.userData = nullptr;      // a manager that is all zeros is incomplete too, not "none given"
    if (nullMask & 1) inc.malloc = nullptr; if (nullMask & 2) inc.calloc = nullptr; if (nullMask & 4) inc.realloc = nullptr; if (nullMask & 8) inc.reallocarray = nullptr; if (nullMask & 16) inc.free = nullptr;
    Str s; for (int t = 0; t < 30; t++) { s = gen_uri(r); size_t e; if (dfa_uriref(s, &e)) break; s = "a://h/p?q"; }
    UriBox<X> A, B; if (A.parse(s, &good) != URI_SUCCESS || B.parse("s://h/a/b", &good) != URI_SUCCESS) return;
    typename X::S w = widen<X>(s); typename X::S qs = widen<X>("a=b&c");
    QList node; typename X::S k = widen<X>("k"), v = widen<X>("v"); node.key = k.c_str(); node.value = v.c_str(); node.next = nullptr;
    c.note(fmt("%s mm nullMask=0x%x \"%s\"", X::tag(), nullMask, esc(s.substr(0, 150)).c_str()));
    auto verdict = [&](const char* fn, int rc) {
        c.evaluations++;
        if (rc != URI_ERROR_MEMORY_MANAGER_INCOMPLETE) c.violation("C13", fmt("mm/%s/%s/incomplete-manager-not-rejected", X::tag(), fn), fmt("null slots mask=0x%x rc=%d", nullMask, rc));
        else c.count("incomplete_manager_rejected");
        if (probe.requests || probe.releases || probe.free_null || probe.bad_free) { c.violation("C13", fmt("mm/%s/%s/incomplete-manager-slot-called", X::tag(), fn), fmt("null slots mask=0x%x requests=%llu releases=%llu", nullMask, (unsigned long long)probe.requests, (unsigned long long)(probe.releases + probe.free_null + probe.bad_free))); probe.requests = probe.releases = probe.free_null = probe.bad_free = 0; probe.release_all(); }
    };
    { Uri u; memset(&u, 0, sizeof u); const Char* ep; int rc; { LibScope ls; rc = X::ParseSingleUriExMm(&u, w.data(), w.data() + w.size(), &ep, &inc); } verdict("ParseSingleUriExMm", rc); if (rc == URI_SUCCESS) { LibScope ls; X::FreeUriMembersMm(&u, probe.mgr()); } }
    { Uri d; memset(&d, 0, sizeof d); int rc; { LibScope ls; rc = X::AddBaseUriExMm(&d, &A.u, &B.u, URI_RESOLVE_STRICTLY, &inc); } verdict("AddBaseUriExMm", rc); if (rc == URI_SUCCESS) { LibScope ls; X::FreeUriMembersMm(&d, probe.mgr()); } }
    { Uri d; memset(&d, 0, sizeof d); int rc; { LibScope ls; rc = X::RemoveBaseUriMm(&d, &B.u, &B.u, URI_FALSE, &inc); } verdict("RemoveBaseUriMm", rc); if (rc == URI_SUCCESS) { LibScope ls; X::FreeUriMembersMm(&d, probe.mgr()); } }
    { Str before; A.str(&before); int rc; { LibScope ls; rc = X::NormalizeSyntaxExMm(&A.u, 63, &inc); } verdict("NormalizeSyntaxExMm", rc); Str after; A.str(&after); if (rc != URI_SUCCESS && before != after) c.violation("C13", fmt("mm/%s/NormalizeSyntaxExMm/modified-despite-rejection", X::tag()), esc(s)); }
    { int rc; { LibScope ls; rc = X::MakeOwnerMm(&A.u, &inc); } verdict("MakeOwnerMm", rc); }
    { int rc; { LibScope ls; rc = X::FreeUriMembersMm(&A.u, &inc); } verdict("FreeUriMembersMm", rc); }
    { Char* out = nullptr; int rc; { LibScope ls; rc = X::ComposeQueryMallocExMm(&out, &node, URI_TRUE, URI_TRUE, &inc); } verdict("ComposeQueryMallocExMm", rc); }
    { QList* l = nullptr; int cnt = 0; int rc; { LibScope ls; rc = X::DissectQueryMallocExMm(&l, &cnt, qs.data(), qs.data() + qs.size(), URI_TRUE, URI_BR_DONT_TOUCH, &inc); } verdict("DissectQueryMallocExMm", rc); }
    { QList* l = nullptr; int cnt = 0; int rc0; { LibScope ls; rc0 = X::DissectQueryMallocExMm(&l, &cnt, qs.data(), qs.data() + qs.size(), URI_TRUE, URI_BR_DONT_TOUCH, good.mgr()); } if (rc0 == URI_SUCCESS) { int rc; { LibScope ls; rc = X::FreeQueryListMm(l, &inc); } verdict("FreeQueryListMm", rc); LibScope ls; X::FreeQueryListMm(l, good.mgr()); } }
    { int rc; { LibScope ls; rc = uriTestMemoryManager(&inc); } verdict("uriTestMemoryManager", rc); }
    // NULL arguments: the call is refused; an output structure the caller did not initialise (filled with 0xEE here) must not be taken
    // apart by the cleanup of the refused call -- nothing may reach the manager's free that it did not hand out
    {
        Uri d; int rc;
        memset(&d, 0xEE, sizeof d); { LibScope ls; rc = X::AddBaseUriExMm(&d, nullptr, &B.u, URI_RESOLVE_STRICTLY, good.mgr()); } c.evaluations++; if (rc == URI_SUCCESS) c.violation("C13", fmt("mm/%s/null-argument-accepted", X::tag()), "AddBaseUriExMm(relSource=NULL)");
        memset(&d, 0xEE, sizeof d); { LibScope ls; rc = X::AddBaseUriExMm(&d, &A.u, nullptr, URI_RESOLVE_STRICTLY, good.mgr()); } c.evaluations++; if (rc == URI_SUCCESS) c.violation("C13", fmt("mm/%s/null-argument-accepted", X::tag()), "AddBaseUriExMm(absBase=NULL)");
        memset(&d, 0xEE, sizeof d); { LibScope ls; rc = X::RemoveBaseUriMm(&d, nullptr, &B.u, URI_FALSE, good.mgr()); } c.evaluations++; if (rc == URI_SUCCESS) c.violation("C13", fmt("mm/%s/null-argument-accepted", X::tag()), "RemoveBaseUriMm(absSource=NULL)");
        memset(&d, 0xEE, sizeof d); { LibScope ls; rc = X::RemoveBaseUriMm(&d, &B.u, nullptr, URI_TRUE, good.mgr()); } c.evaluations++; if (rc == URI_SUCCESS) c.violation("C13", fmt("mm/%s/null-argument-accepted", X::tag()), "RemoveBaseUriMm(absBase=NULL)");
        memset(&d, 0xEE, sizeof d); const Char* ep = nullptr; { LibScope ls; rc = X::ParseSingleUriExMm(&d, nullptr, nullptr, &ep, good.mgr()); } c.evaluations++; if (rc == URI_SUCCESS) c.violation("C13", fmt("mm/%s/null-argument-accepted", X::tag()), "ParseSingleUriExMm(first=NULL)");
        { QList* l = (QList*)(uintptr_t)0xEEEEEEEEEEEEEEEEull; int cnt = 7; { LibScope ls; rc = X::DissectQueryMallocExMm(&l, &cnt, nullptr, nullptr, URI_TRUE, URI_BR_DONT_TOUCH, good.mgr()); } c.evaluations++; if (rc == URI_SUCCESS) c.violation("C13", fmt("mm/%s/null-argument-accepted", X::tag()), "DissectQueryMallocExMm(first=NULL)"); }
        { Char* out = (Char*)(uintptr_t)0xEEEEEEEEEEEEEEEEull; { LibScope ls; rc = X::ComposeQueryMallocExMm(&out, nullptr, URI_TRUE, URI_TRUE, good.mgr()); } c.evaluations++; if (rc == URI_SUCCESS) c.violation("C13", fmt("mm/%s/null-argument-accepted", X::tag()), "ComposeQueryMallocExMm(list=NULL)"); }
        if (good.bad_free) { c.violation("C13", fmt("mm/%s/refused-call-released-something-never-handed-out", X::tag()), good.bad_free_note); good.bad_free = 0; good.bad_free_note.clear(); }
    }
    // a completion that is refused (backend without malloc or without free) leaves an all-zero manager all-zero: it is still incomplete
    { Ledger be; UriMemoryManager raw, cm; memset(&raw, 0, sizeof raw); memset(&cm, 0, sizeof cm); if (idx & 1) raw.malloc = be.mm.malloc; else raw.free = be.mm.free; raw.userData = &be;
      int rcc = uriCompleteMemoryManager(&cm, &raw); c.evaluations++;
      if (rcc != URI_ERROR_MEMORY_MANAGER_INCOMPLETE) c.violation("C13", "mm/incomplete-backend-accepted", fmt("rc=%d", rcc));
      else { Uri u; memset(&u, 0, sizeof u); const Char* ep; int rc; { LibScope ls; rc = X::ParseSingleUriExMm(&u, w.data(), w.data() + w.size(), &ep, &cm); } c.evaluations++;
             if (rc != URI_ERROR_MEMORY_MANAGER_INCOMPLETE) c.violation("C13", fmt("mm/%s/manager-left-by-refused-completion-not-rejected", X::tag()), fmt("rc=%d", rc));
             int rt; { LibScope ls; rt = uriTestMemoryManager(&cm); } if (rt != URI_ERROR_MEMORY_MANAGER_INCOMPLETE) c.violation("C13", "mm/manager-left-by-refused-completion-not-rejected", fmt("uriTestMemoryManager rc=%d", rt)); }
      be.release_all(); }
    // the same question where the call would have nothing to allocate or release anyway: the manager is still rejected first
    {
        UriBox<X> O; if (O.parse(s, &good) == URI_SUCCESS && O.make_owner() == URI_SUCCESS) {
            { int rc; { LibScope ls; rc = X::MakeOwnerMm(&O.u, &inc); } verdict("MakeOwnerMm(already-owner)", rc); }
            O.normalize(63);
            { int rc; { LibScope ls; rc = X::NormalizeSyntaxExMm(&O.u, 63, &inc); } verdict("NormalizeSyntaxExMm(already-normal)", rc); }
            { int rc; { LibScope ls; rc = X::NormalizeSyntaxExMm(&O.u, 0, &inc); } verdict("NormalizeSyntaxExMm(mask=0)", rc); }
        }
        O.free_members();
        { Uri z; memset(&z, 0, sizeof z); int rc; { LibScope ls; rc = X::FreeUriMembersMm(&z, &inc); } verdict("FreeUriMembersMm(nothing-to-free)", rc); }
        { int rc; { LibScope ls; rc = X::FreeQueryListMm(nullptr, &inc); } verdict("FreeQueryListMm(NULL-list)", rc); }
        { QList* l = nullptr; int cnt = 0; int rc; { LibScope ls; rc = X::DissectQueryMallocExMm(&l, &cnt, qs.data(), qs.data(), URI_TRUE, URI_BR_DONT_TOUCH, &inc); } verdict("DissectQueryMallocExMm(empty-range)", rc); }
        { Uri u; memset(&u, 0, sizeof u); const Char* ep; int rc; { LibScope ls; rc = X::ParseSingleUriExMm(&u, w.data(), w.data(), &ep, &inc); } verdict("ParseSingleUriExMm(empty-text)", rc); if (rc == URI_SUCCESS) { LibScope ls; X::FreeUriMembersMm(&u, probe.mgr()); } }
        UriBox<X> Rel; if (Rel.parse("x/y", &good) == URI_SUCCESS) {
            { Uri d; memset(&d, 0, sizeof d); int rc; { LibScope ls; rc = X::AddBaseUriExMm(&d, &B.u, &Rel.u, URI_RESOLVE_STRICTLY, &inc); } verdict("AddBaseUriExMm(relative-base)", rc); }
            { Uri d; memset(&d, 0, sizeof d); int rc; { LibScope ls; rc = X::RemoveBaseUriMm(&d, &Rel.u, &B.u, URI_FALSE, &inc); } verdict("RemoveBaseUriMm(relative-source)", rc); }
        }
        Rel.free_members();
    }
    // the objects are still intact and can be released through the manager that created them
    A.free_members(); B.free_members();
    if (good.outstanding() || good.bad_free) { c.violation("C13", fmt("mm/%s/leak-or-bad-free-after-rejections", X::tag()), good.describe_live() + good.bad_free_note); good.release_all(); }
    // a manager completed from a malloc/free-only backend: the library's own self test, a call that takes a manager like any other,
    // must return every block to that backend
    if (idx % 16 == 8) { Ledger be; UriMemoryManager raw, cm; memset(&raw, 0, sizeof raw); memset(&cm, 0, sizeof cm); raw.malloc = be.mm.malloc; raw.free = be.mm.free; raw.userData = &be;
        if (uriCompleteMemoryManager(&cm, &raw) == URI_SUCCESS) { int rc; { LibScope ls; rc = uriTestMemoryManager(&cm); } c.evaluations++;
            if (rc != URI_SUCCESS) c.violation("C13", "mm/completed-manager-fails-self-test", fmt("rc=%d", rc));
            if (be.outstanding() || be.bad_free) { c.violation("C13", "mm/self-test-of-completed-manager-leaves-backend-blocks", be.describe_live() + " " + be.bad_free_note); be.release_all(); }
            // and a URI round trip under it
            UriBox<X> Z; typename X::S wz = widen<X>(s); const Char* ep; int pr; { LibScope ls; pr = X::ParseSingleUriExMm(&Z.u, wz.data(), wz.data() + wz.size(), &ep, &cm); if (pr == URI_SUCCESS) { X::MakeOwnerMm(&Z.u, &cm); X::NormalizeSyntaxExMm(&Z.u, 63, &cm); X::FreeUriMembersMm(&Z.u, &cm); } }
            if (be.outstanding() || be.bad_free) { c.violation("C13", "mm/completed-manager-leaves-backend-blocks", be.describe_live() + " " + be.bad_free_note); be.release_all(); } } }
    // a complete manager passes
    if (idx % 16 == 0) { int rc = uriTestMemoryManager(good.mgr()); c.evaluations++; if (rc != URI_SUCCESS) c.violation("C13", "mm/complete-manager-fails-self-test", fmt("rc=%d", rc)); if (good.outstanding()) { c.violation("C13", "mm/self-test-leaks", good.describe_live()); good.release_all(); } }
    // ... and when the manager legally refuses one of the self test's requests (a failing realloc leaves the old block with the caller),
    // the test may call the manager faulty but must have given every block back: there is no release call that could do it later
    if (idx % 16 == 8) { long k = 1 + (long)((idx / 16) % 14); Ledger t; t.arm(k, (idx / 16) % 3 == 0); int rc; { LibScope ls; rc = uriTestMemoryManager(t.mgr()); } c.evaluations++; c.count(t.failed ? "self_test_with_refused_request" : "self_test_request_index_not_reached");
        if (t.outstanding()) { c.violation("C13", "mm/self-test-leaves-a-block-after-a-refused-request", fmt("request %ld refused%s: rc=%d, %s", k, (idx / 16) % 3 == 0 ? " (and all later ones)" : "", rc, t.describe_live().c_str())); t.release_all(); }
        if (t.bad_free) c.violation("C13", "mm/self-test-bad-release-after-a-refused-request", fmt("request %ld refused: %s", k, t.bad_free_note.c_str())); }
    c.distinct(hash_str(s, nullMask));
    if (idx % 500 == 0) c.sample("shape", fmt("null-slot mask 0x%x with \"%s\"", nullMask, esc(s).c_str()));
}
// A component far too large to be real memory: 2^29 + 3 and 2^30 + 5 characters, made of one 1 MiB page-cache file mapped again and
// again behind itself (address space only). Make-owner has to ask its manager for exactly length * sizeof(character) bytes -- the
// manager notes the request and refuses it -- and report out of memory in both APIs. (An int byte count wraps here for wchar_t:
// fix 48b0f44.) fast build only; skipped where the mapping cannot be set up.
#include <sys/mman.h>
template <class X> static void giant_component(Ctx& c, size_t nchars) {
    typedef typename X::Char Char; typedef typename X::Uri Uri;
    const size_t piece = (size_t)1 << 20; size_t bytes = nchars * sizeof(Char); size_t total = (bytes + piece - 1) / piece * piece;
    int fd = memfd_create("vf-giant", 0); if (fd < 0 || ftruncate(fd, (off_t)piece) != 0) { if (fd >= 0) close(fd); c.count("giant_component_skipped"); return; }
    { std::vector<Char> one(piece / sizeof(Char), X::wid('a')); if (write(fd, one.data(), piece) != (ssize_t)piece) { close(fd); c.count("giant_component_skipped"); return; } }
    char* base = (char*)mmap(nullptr, total, PROT_NONE, MAP_PRIVATE | MAP_ANONYMOUS | MAP_NORESERVE, -1, 0);
    if (base == MAP_FAILED) { close(fd); c.count("giant_component_skipped"); return; }
    bool ok = true; for (size_t off = 0; off < total && ok; off += piece) ok = mmap(base + off, piece, PROT_READ, MAP_SHARED | MAP_FIXED, fd, 0) != MAP_FAILED;
    if (ok) {
        struct Rec { UriMemoryManager mm; size_t largest = 0; uint64_t n = 0; } rec; memset(&rec.mm, 0, sizeof rec.mm);
        rec.mm.userData = &rec;
        rec.mm.malloc = [](UriMemoryManager* m, size_t n) -> void* { Rec* r = (Rec*)m->userData; r->n++; if (n > r->largest) r->largest = n; if (n > ((size_t)64 << 20)) { errno = ENOMEM; return nullptr; } return raw_malloc(n ? n : 1); };
        rec.mm.calloc = [](UriMemoryManager* m, size_t a, size_t b) -> void* { Rec* r = (Rec*)m->userData; r->n++; if (b && a > (size_t)-1 / b) return nullptr; if (a * b > r->largest) r->largest = a * b; if (a * b > ((size_t)64 << 20)) { errno = ENOMEM; return nullptr; } void* p = raw_malloc(a * b ? a * b : 1); if (p) memset(p, 0, a * b); return p; };
        rec.mm.realloc = [](UriMemoryManager*, void*, size_t) -> void* { return nullptr; };
        rec.mm.reallocarray = [](UriMemoryManager*, void*, size_t, size_t) -> void* { return nullptr; };
        rec.mm.free = [](UriMemoryManager*, void* p) { if (p) raw_free(p); };
        Uri u; memset(&u, 0, sizeof u); u.query.first = (const Char*)base; u.query.afterLast = (const Char*)base + nchars;
        int rc; { LibScope ls; rc = X::MakeOwnerMm(&u, &rec.mm); } c.evaluations++; c.count("giant_component_make_owner");
        Str what = fmt("uriMakeOwnerMm%s on a hand-filled URI whose query has %zu characters: rc=%d, largest request %zu bytes (expected %zu), owner=%d", X::tag(), nchars, rc, rec.largest, bytes, (int)u.owner);
        if (rec.largest != bytes) c.violation("C19", fmt("mm/%s/giant-component/copy-sized-wrongly", X::tag()), what);
        else if (rc != URI_ERROR_MALLOC) c.violation("C14", fmt("mm/%s/giant-component/refused-request-not-reported", X::tag()), what);
        if (rc == URI_SUCCESS || u.owner) { /* whatever it believes to own is not worth walking: forget it */ }
    } else c.count("giant_component_skipped");
    munmap(base, total); close(fd);
}
static void mm_case(Ctx& c, uint64_t idx) {
    if (idx < 4 && c.build == "fast") { c.attribute("C19"); size_t n = idx < 2 ? ((size_t)1 << 29) + 3 : ((size_t)1 << 30) + 5; if (idx % 2) giant_component<ApiW>(c, n); else giant_component<ApiA>(c, n); return; }
    if (idx % 2) mm_run<ApiW>(c, idx); else mm_run<ApiA>(c, idx); }
static Monitor monM = {"mm", "C13: incomplete memory managers rejected before any slot is touched, all ...Mm functions", "C13", mm_ncases, mm_case, nullptr};
VF_REGISTER(monM);

// ---------------------------------------------------------------- statics
struct Seg { char* lo; size_t len; };
static std::vector<Seg> segs; static bool found = false;
static int phdr_cb(struct dl_phdr_info* info, size_t, void*) {
    if (!info->dlpi_name || !strstr(info->dlpi_name, "liburiparser_v")) return 0;
    found = true; size_t ps = (size_t)sysconf(_SC_PAGESIZE);
    for (int i = 0; i < info->dlpi_phnum; i++) {
        const ElfW(Phdr)& ph = info->dlpi_phdr[i];
        if (ph.p_type != PT_LOAD || !(ph.p_flags & PF_W)) continue;
        uintptr_t lo = (info->dlpi_addr + ph.p_vaddr) & ~(ps - 1), hi = (info->dlpi_addr + ph.p_vaddr + ph.p_memsz + ps - 1) & ~(ps - 1);
        segs.push_back(Seg{(char*)lo, hi - lo});
    }
    return 0;
}
static uint64_t st_ncases(Ctx& c) { return (uint64_t)c.param_int("tours", c.tier == "thorough" ? 20000 : 1500); }

template <class X> uint64_t tour(Ctx& c) {
    typedef typename X::Char Char; typedef typename X::Uri Uri; typedef typename X::QList QList;
    Rng& r = c.rng; uint64_t calls = 0; Ledger led; UriMemoryManager* mm = r.coin() ? led.mgr() : nullptr;
    Str a, b; for (int t = 0; t < 30; t++) { UriGenOpts o; o.dotHeavy = r.coin(); a = gen_uri(r, o); size_t e; if (dfa_uriref(a, &e)) break; a = "HTTP://U%41@[::1]:80/a/./b/../%7e?q#f"; }
    b = gen_abs_base(r); { size_t e; if (!dfa_uriref(b, &e)) b = "s://h/p/q"; }
    typename X::S wa = widen<X>(a), wb = widen<X>(b); std::vector<Char> za(wa.begin(), wa.end()); za.push_back(0);
    Uri A, B, D; const Char* ep; typename X::State st; st.uri = &A;
    LibScope ls;
    X::ParseUriEx(&st, wa.data(), wa.data() + wa.size()); X::FreeUriMembers(&A); X::ParseUri(&st, za.data()); X::FreeUriMembers(&A); X::ParseSingleUri(&A, za.data(), &ep); X::FreeUriMembers(&A); calls += 6;
    X::ParseSingleUriEx(&A, wa.data(), wa.data() + wa.size(), &ep); X::FreeUriMembers(&A); calls += 2;
    if (X::ParseSingleUriExMm(&A, wa.data(), wa.data() + wa.size(), &ep, mm) != URI_SUCCESS) return calls;
    if (X::ParseSingleUriExMm(&B, wb.data(), wb.data() + wb.size(), &ep, mm) != URI_SUCCESS) { X::FreeUriMembersMm(&A, mm); return calls; }
    calls += 2;
    int need = 0, wr = 0; X::ToStringCharsRequired(&A, &need); std::vector<Char> buf((size_t)need + 2); X::ToString(buf.data(), &A, need + 1, &wr); X::ToString(buf.data(), &A, need, &wr); calls += 3;
    unsigned m2; X::NormalizeSyntaxMaskRequired(&A); X::NormalizeSyntaxMaskRequiredEx(&A, &m2); X::EqualsUri(&A, &B); X::EqualsUri(&A, &A); calls += 4;
    if (X::AddBaseUri(&D, &A, &B) == URI_SUCCESS) X::FreeUriMembers(&D); if (X::AddBaseUriEx(&D, &A, &B, URI_RESOLVE_IDENTICAL_SCHEME_COMPAT) == URI_SUCCESS) X::FreeUriMembers(&D); if (X::AddBaseUriExMm(&D, &A, &B, URI_RESOLVE_STRICTLY, mm) == URI_SUCCESS) X::FreeUriMembersMm(&D, mm); calls += 3;
    if (X::RemoveBaseUri(&D, &B, &B, URI_FALSE) == URI_SUCCESS) X::FreeUriMembers(&D); if (X::RemoveBaseUriMm(&D, &B, &B, URI_TRUE, mm) == URI_SUCCESS) X::FreeUriMembersMm(&D, mm); calls += 2;
    X::MakeOwnerMm(&B, mm); X::NormalizeSyntaxExMm(&A, r.below(64), mm); X::NormalizeSyntaxExMm(&A, 63, mm); X::NormalizeSyntaxExMm(&B, 63, mm); calls += 4;
    { Uri E; if (X::ParseSingleUriEx(&E, wa.data(), wa.data() + wa.size(), &ep) == URI_SUCCESS) { X::MakeOwner(&E); X::NormalizeSyntax(&E); X::NormalizeSyntaxEx(&E, 63); X::FreeUriMembers(&E); calls += 5; } }
    X::FreeUriMembersMm(&A, mm); X::FreeUriMembersMm(&A, mm); X::FreeUriMembersMm(&B, mm); calls += 3;
    Str s = gen_string(r, 20); for (auto& ch : s) if (!ch) ch = 'x'; typename X::S ws = widen<X>(s); std::vector<Char> out(6 * s.size() + 10), io(ws.begin(), ws.end()); io.push_back(0);
    X::Escape(io.data(), out.data(), URI_TRUE, URI_TRUE); X::EscapeEx(ws.data(), ws.data() + ws.size(), out.data(), URI_FALSE, URI_FALSE); X::UnescapeInPlace(io.data()); X::UnescapeInPlaceEx(out.data(), URI_TRUE, URI_BR_TO_CRLF); calls += 4;
    QList* l = nullptr; int cnt; typename X::S q = widen<X>("a=b&c=%41+d&e&=f");
    if (X::DissectQueryMalloc(&l, &cnt, q.data(), q.data() + q.size()) == URI_SUCCESS) {
        int req = 0; X::ComposeQueryCharsRequired(l, &req); X::ComposeQueryCharsRequiredEx(l, &req, URI_TRUE, URI_TRUE); std::vector<Char> qb((size_t)req + 1); X::ComposeQuery(qb.data(), l, req + 1, &wr); X::ComposeQueryEx(qb.data(), l, req + 1, &wr, URI_FALSE, URI_FALSE);
        Char* m = nullptr; if (X::ComposeQueryMalloc(&m, l) == URI_SUCCESS) free(m); if (X::ComposeQueryMallocEx(&m, l, URI_TRUE, URI_FALSE) == URI_SUCCESS) free(m); if (X::ComposeQueryMallocExMm(&m, l, URI_TRUE, URI_FALSE, mm) == URI_SUCCESS) { if (mm) mm->free(mm, m); else free(m); }
        X::FreeQueryList(l); calls += 9;
    }
    if (X::DissectQueryMallocEx(&l, &cnt, q.data(), q.data() + q.size(), URI_TRUE, URI_BR_TO_LF) == URI_SUCCESS) X::FreeQueryList(l); if (X::DissectQueryMallocExMm(&l, &cnt, q.data(), q.data() + q.size(), URI_TRUE, URI_BR_TO_LF, mm) == URI_SUCCESS) X::FreeQueryListMm(l, mm); calls += 4;
    { Str f = gen_filename_unix(r); typename X::S wf = widen<X>(f); std::vector<Char> o(8 + 3 * f.size() + 1), bk(8 + 3 * f.size() + 8); X::UnixFilenameToUriString(wf.c_str(), o.data()); X::UriStringToUnixFilename(o.data(), bk.data()); f = gen_filename_win(r); wf = widen<X>(f); o.assign(8 + 3 * f.size() + 1, 0); bk.assign(8 + 3 * f.size() + 8, 0); X::WindowsFilenameToUriString(wf.c_str(), o.data()); X::UriStringToWindowsFilename(o.data(), bk.data()); calls += 4; }
    { unsigned char oct[4]; typename X::S ip = widen<X>("192.168.0.1"); X::ParseIpFourAddress(oct, ip.data(), ip.data() + ip.size()); ip = widen<X>("1.2.3.256"); X::ParseIpFourAddress(oct, ip.data(), ip.data() + ip.size()); calls += 2; }
    // the rarely taken paths of every entry point: failing parses (every entry point, optional out-parameters NULL), error returns,
    // too-small buffers, NULL optional arguments, empty inputs
    {
        static const char* const BAD[] = {"a b", "http://[::1", "%zz", "//h:x", "s://h/%4", "[", "//[v1.]", "a#b#c", "//1.2.3.4:8x", ""};
        Str bs = BAD[r.below(10)]; if (r.coin()) bs = mutate(r, a, 2); typename X::S wbad = widen<X>(bs); std::vector<Char> zbad(wbad.begin(), wbad.end()); for (auto& ch : zbad) if (!ch) ch = X::wid('x'); zbad.push_back(0);
        Uri F; typename X::State s2; s2.uri = &F;
        X::ParseUriEx(&s2, wbad.data(), wbad.data() + wbad.size()); X::FreeUriMembers(&F); X::ParseUri(&s2, zbad.data()); X::FreeUriMembers(&F);
        X::ParseSingleUri(&F, zbad.data(), nullptr); X::FreeUriMembers(&F); X::ParseSingleUriEx(&F, wbad.data(), wbad.data() + wbad.size(), nullptr); X::FreeUriMembers(&F);
        X::ParseSingleUriEx(&F, zbad.data(), nullptr, nullptr); X::FreeUriMembers(&F); X::ParseSingleUriExMm(&F, wbad.data(), wbad.data() + wbad.size(), nullptr, mm); X::FreeUriMembersMm(&F, mm); X::FreeUriMembersMm(&F, mm);
        X::ParseSingleUriEx(&F, zbad.data(), nullptr, &ep); X::FreeUriMembers(&F); calls += 14;
        // error returns of the two-operand functions: relative base / source
        Uri Rl, Ab, Dd; memset(&Rl, 0, sizeof Rl); memset(&Ab, 0, sizeof Ab); typename X::S wrl = widen<X>("../x/./y?q"), wab = widen<X>("s://h/a/b");
        if (X::ParseSingleUriEx(&Rl, wrl.data(), wrl.data() + wrl.size(), nullptr) == URI_SUCCESS && X::ParseSingleUriEx(&Ab, wab.data(), wab.data() + wab.size(), nullptr) == URI_SUCCESS) {
            if (X::AddBaseUri(&Dd, &Ab, &Rl) == URI_SUCCESS) X::FreeUriMembers(&Dd); if (X::AddBaseUriExMm(&Dd, &Rl, &Rl, URI_RESOLVE_IDENTICAL_SCHEME_COMPAT, mm) == URI_SUCCESS) X::FreeUriMembersMm(&Dd, mm);
            if (X::RemoveBaseUri(&Dd, &Rl, &Ab, URI_FALSE) == URI_SUCCESS) X::FreeUriMembers(&Dd); if (X::RemoveBaseUriMm(&Dd, &Ab, &Rl, URI_TRUE, mm) == URI_SUCCESS) X::FreeUriMembersMm(&Dd, mm);
            if (X::AddBaseUri(&Dd, &Rl, &Ab) == URI_SUCCESS) { int nd = 0; X::ToStringCharsRequired(&Dd, &nd); std::vector<Char> tb((size_t)nd + 1); X::ToString(tb.data(), &Dd, nd + 1, nullptr); X::ToString(tb.data(), &Dd, 1, nullptr); X::ToString(tb.data(), &Dd, 0, nullptr); X::ToString(tb.data(), &Dd, -1, &wr); X::FreeUriMembers(&Dd); calls += 5; }
            X::EqualsUri(&Rl, nullptr); X::EqualsUri(nullptr, nullptr); X::NormalizeSyntaxMaskRequiredEx(&Rl, &m2); X::NormalizeSyntaxEx(&Rl, 0); X::NormalizeSyntaxEx(&Rl, 0x40u); X::NormalizeSyntax(&Rl); calls += 10;
        }
        X::FreeUriMembers(&Rl); X::FreeUriMembers(&Ab);
        // query functions: empty range, too-small buffers, optional NULLs
        QList* l2 = nullptr; int c2 = 0; typename X::S qe = widen<X>(""), q2 = widen<X>("&&=&a&b=%zz&%0D%0A=+");
        if (X::DissectQueryMalloc(&l2, &c2, qe.data(), qe.data()) == URI_SUCCESS) X::FreeQueryList(l2);
        if (X::DissectQueryMallocEx(&l2, nullptr, q2.data(), q2.data() + q2.size(), URI_FALSE, URI_BR_TO_CR) == URI_SUCCESS && l2) { Char small[4]; int w3 = 0; X::ComposeQuery(small, l2, 1, &w3); X::ComposeQueryEx(small, l2, 3, nullptr, URI_TRUE, URI_TRUE); X::ComposeQueryEx(small, l2, 0, &w3, URI_FALSE, URI_FALSE); X::FreeQueryList(l2); calls += 4; }
        X::FreeQueryList(nullptr); X::FreeQueryListMm(nullptr, mm); calls += 4;
        // escaping: empty range, NULL tolerant paths, every break mode
        Char e1[8]; X::EscapeEx(ws.data(), ws.data(), e1, URI_TRUE, URI_TRUE); for (int brm = 0; brm < 4; brm++) { std::vector<Char> io2(ws.begin(), ws.end()); io2.push_back(0); X::UnescapeInPlaceEx(io2.data(), brm & 1, (UriBreakConversion)brm); } calls += 5;
        // filename conversions: the short input forms and names of every kind
        static const char* const UF[] = {"file:/x", "file:c:/x", "file:///C:/x%20y", "file://srv/sh", "rel/x%41", "file:", "", "file://", "/abs"};
        for (const char* u : UF) { typename X::S wu = widen<X>(u); std::vector<Char> o2(wu.size() + 4); X::UriStringToUnixFilename(wu.c_str(), o2.data()); X::UriStringToWindowsFilename(wu.c_str(), o2.data()); calls += 2; }
        static const char* const WF[] = {"C:\\", "\\\\s", "\\x", "", "a", "C:\\a b\\c"}; for (const char* f2 : WF) { typename X::S wf2 = widen<X>(f2); std::vector<Char> o3(8 + 3 * wf2.size() + 1); X::WindowsFilenameToUriString(wf2.c_str(), o3.data()); X::UnixFilenameToUriString(wf2.c_str(), o3.data()); calls += 2; }
    }
    { UriMemoryManager be, cm; memset(&be, 0, sizeof be); Ledger bl; be.malloc = bl.mm.malloc; be.free = bl.mm.free; be.userData = &bl; if (uriCompleteMemoryManager(&cm, &be) == URI_SUCCESS) { uriTestMemoryManager(&cm); void* p = uriEmulateCalloc(&cm, 3, 5); p = uriEmulateReallocarray(&cm, p, 7, 5); cm.free(&cm, p); calls += 5; } bl.release_all(); }
    led.release_all();
    return calls;
}
static void st_case(Ctx& c, uint64_t idx) {
    if (!found) dl_iterate_phdr(phdr_cb, nullptr);
    if (!found || segs.empty()) { c.count("library_data_protection_unavailable"); (idx % 2 ? tour<ApiW>(c) : tour<ApiA>(c)); return; }
    std::vector<Str> before; size_t total = 0; for (auto& s : segs) { before.push_back(Str(s.lo, s.len)); total += s.len; }
    for (auto& s : segs) mprotect(s.lo, s.len, PROT_READ);
    c.note("statics: API tour under write-protected library data");
    uint64_t n = idx % 2 ? tour<ApiW>(c) : tour<ApiA>(c);
    for (auto& s : segs) mprotect(s.lo, s.len, PROT_READ | PROT_WRITE);
    for (size_t i = 0; i < segs.size(); i++) if (memcmp(before[i].data(), segs[i].lo, segs[i].len) != 0) c.violation("C20", "statics/library-writable-segment-changed", fmt("segment %zu (%zu bytes)", i, segs[i].len));
    c.evaluations += n; c.count("api_tour_calls", n); c.count("library_writable_bytes_protected", total);
    c.distinct(idx); if (idx < 2) c.sample("tour", fmt("%llu public calls with %zu bytes of library .data/.bss/.got mapped read-only", (unsigned long long)n, total));
}
static Monitor monS = {"statics", "C20: API tour with the library's writable segments write-protected (so build)", "C20", st_ncases, st_case, nullptr};
VF_REGISTER(monS);
}

// Monitor "ip4": C02 -- the public uriParseIpFourAddressA/W against the IPv4address automaton and value decoder:
// all strings over "0-9 ." plus one foreign character up to a length, and random longer ones; return code, the four
// octets, nothing written beyond octetOutput[3], input range respected (exact heap block / fence).
namespace {
static const char IP4_ALPHA[] = "0123456789.x";
static uint64_t ip4_nenum(Ctx& c) { return genum_count(12, (size_t)c.param_int("enum_len", c.tier == "thorough" ? 8 : 7)); }
static uint64_t ip4_ncases(Ctx& c) { return ip4_nenum(c) + (uint64_t)c.param_int("random", c.tier == "thorough" ? 20000000 : 2000000); }
template <class X> void ip4_run(Ctx& c, const Str& s) {
    typedef typename X::Char Char;
    typename X::S w = widen<X>(s);
    static GuardedInput gin; gin.set(w.data(), w.size() * sizeof(Char), (int)(c.case_index & 1));
    const Char* first = (const Char*)gin.ptr;
    unsigned char out[12]; memset(out, 0xA7, sizeof out);
    int rc; { LibScope ls; rc = X::ParseIpFourAddress(out + 4, first, first + w.size()); }
    c.evaluations++;
    unsigned char want[4]; bool valid = decode_ip4(s, want);
    Str what = fmt("uriParseIpFourAddress%s(\"%s\")", X::tag(), esc(s).c_str());
    for (int i = 0; i < 4; i++) if (out[i] != 0xA7 || out[8 + i] != 0xA7) { c.violation("C02", fmt("ip4/%s/write-outside-octet-output", X::tag()), what); break; }
    if (!gin.unchanged()) c.violation("C02", fmt("ip4/%s/input-modified", X::tag()), what);
    if (valid != (rc == URI_SUCCESS)) { c.violation("C02", fmt("ip4/%s/%s", X::tag(), valid ? "rejects-valid-address" : "accepts-invalid-address"), what + fmt(" rc=%d", rc)); return; }
    if (!valid && rc != URI_ERROR_SYNTAX) c.violation("C02", fmt("ip4/%s/wrong-error-code", X::tag()), what + fmt(" rc=%d", rc));
    if (valid && memcmp(out + 4, want, 4) != 0) c.violation("C02", fmt("ip4/%s/octets-wrong", X::tag()), what + fmt(" got %u.%u.%u.%u", out[4], out[5], out[6], out[7]));
    c.count(valid ? "ip4_valid" : "ip4_invalid");
    // char API: the four octets written over the text they are read from (an in-place conversion; each octet is stored after its text was read)
    if (sizeof(Char) == 1 && s.size() >= 4 && (c.case_index % 3) == 0) {
        std::vector<char> tmp(s.begin(), s.end()); tmp.resize(s.size() + 8, 'q');
        int r2; { LibScope ls; r2 = X::ParseIpFourAddress((unsigned char*)tmp.data(), (const Char*)tmp.data(), (const Char*)tmp.data() + s.size()); }
        c.evaluations++;
        if (r2 != rc || (valid && memcmp(tmp.data(), want, 4) != 0)) c.violation("C02", fmt("ip4/%s/in-place-output-differs", X::tag()), what + fmt(" separate rc=%d, in place rc=%d octets %u.%u.%u.%u", rc, r2, (unsigned char)tmp[0], (unsigned char)tmp[1], (unsigned char)tmp[2], (unsigned char)tmp[3]));
    }
}
static void ip4_case(Ctx& c, uint64_t idx) {
    Str s; uint64_t ne = ip4_nenum(c);
    if (idx < ne) s = genum_case(idx, Str(IP4_ALPHA, 12), 16);
    else { Rng& r = c.rng; int k = r.chance(2, 3) ? 4 : r.range(1, 5); for (int i = 0; i < k; i++) { if (i) s += '.'; int style = r.below(6); if (style == 0) s += std::to_string(r.below(256)); else if (style == 1) s += std::to_string(250 + r.below(60)); else if (style == 2) s += "0" + std::to_string(r.below(30)); else if (style == 3) s += std::to_string(r.below(10)); else if (style == 4) s += std::to_string(r.below(1000)); else s += r.coin() ? "" : "1a"; } if (r.chance(1, 6)) s = mutate(r, s, 1); for (auto& ch : s) if (!ch) ch = '0'; }
    c.distinct(hash_str(s)); c.note("ip4 \"" + esc(s) + "\"");
    ip4_run<ApiA>(c, s); ip4_run<ApiW>(c, s);
    if (idx % 200000 == 7) c.sample("ip4", esc(s));
}
static Monitor monI = {"ip4", "C02: uriParseIpFourAddress vs IPv4address automaton and decoder", "C02", ip4_ncases, ip4_case, nullptr};
VF_REGISTER(monI);
}
