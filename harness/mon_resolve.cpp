// Monitor "resolve": C06 -- uriAddBaseUri* against the text-level RFC 3986 5.2 model.
#include "vf_obj.hpp"
#include "vf_gen.hpp"

using namespace vf;
namespace {

static const char* const SYS_BASES[] = {"a:b", "a:/b", "a:", "a://h", "a://h/", "a://h/p", "a://h/p/q", "a:b/c", "a://u@h:1/x/y?z", "a:/", "a://h//", "a:b/c/", "a:/b/c", "a:?q", "a://[::1]/p?q#f", "a:b//c", "a://h/p/../q/", "a:/.//b"};
static const size_t NSYSB = sizeof(SYS_BASES) / sizeof(SYS_BASES[0]);
static const size_t SYS_SEGS = 4;
// systematic references: {"", "/"} x small paths x {"", "?q"} (+ scheme / authority variants)
static const char* const SYS_PRE[] = {"", "/", "//g", "//g/", "a:", "x:", "x:/", "a:/", "?y", "#z", "//", "x://g/"};
static const size_t NSYSP = sizeof(SYS_PRE) / sizeof(SYS_PRE[0]);

static uint64_t nsys() { return (uint64_t)NSYSB * NSYSP * gpaths_count(SYS_SEGS); }
static uint64_t ncases(Ctx& c) { return nsys() + (uint64_t)c.param_int("random", c.tier == "thorough" ? 20000000 : 500000); }

static void gen_pair(Ctx& c, uint64_t idx, Str* B, Str* R, const char** gen) {
    if (idx < nsys()) {
        *gen = "systematic";
        *B = SYS_BASES[idx % NSYSB]; idx /= NSYSB;
        Str pre = SYS_PRE[idx % NSYSP]; idx /= NSYSP;
        Str p = gpaths_case(idx, SYS_SEGS);
        if (!pre.empty() && (pre[0] == '?' || pre[0] == '#')) *R = p + pre; else *R = pre + p;
        return;
    }
    Rng& r = c.rng;
    *B = gen_abs_base(r);
    if (r.chance(1, 40)) *B = gen_uri(r);      // sometimes a relative base: must be rejected
    if (r.chance(1, 30)) { *R = *B; *gen = "same-object"; return; }
    UriGenOpts o; o.dotHeavy = r.chance(2, 3); o.maxSegs = 7;
    switch (r.below(6)) {
    case 0: *gen = "uri"; *R = gen_uri(r); break;
    case 1: *gen = "dots"; o.scheme = 0; o.auth = 0; *R = gen_uri(r, o); break;
    case 2: *gen = "dots-any"; *R = gen_uri(r, o); break;
    case 3: *gen = "same-scheme"; { Comp b; size_t e; if (dfa_uriref(*B, &e)) b = split(*B); o.scheme = 0; Str sc = b.hasScheme ? b.scheme : Str("a");
        // identical, or nearly so: one letter in the other case, last character different, one character more / less
        switch (r.below(6)) { case 0: { size_t q = r.below((uint32_t)sc.size()); if (isalpha((unsigned char)sc[q])) sc[q] = (char)(sc[q] ^ 0x20); } break; case 1: sc.back() = sc.back() == 'x' ? 'y' : 'x'; break; case 2: sc += "x"; break; case 3: if (sc.size() > 1) sc.pop_back(); break; default: break; }
        *R = sc + ":" + gen_uri(r, o); } break;
    case 4: *gen = "rfc-examples"; { static const char* ex[] = {"g:h", "g", "./g", "g/", "/g", "//g", "?y", "g?y", "#s", "g#s", "g?y#s", ";x", "g;x", "g;x?y#s", "", ".", "./", "..", "../", "../g", "../..", "../../", "../../g",
                                       "../../../g", "../../../../g", "/./g", "/../g", "g.", ".g", "g..", "..g", "./../g", "./g/.", "g/./h", "g/../h", "g;x=1/./y", "g;x=1/../y", "g?y/./x", "g?y/../x", "g#s/./x", "g#s/../x", "http:g"};
                                       *R = ex[r.below(sizeof ex / sizeof ex[0])]; } break;
    default: *gen = "mutated"; *R = mutate(r, gen_uri(r, o), 1); break;
    }
}

template <class X> void run(Ctx& c, const Str& Bs, const Str& Rs, const char* gen) {
    UriBox<X> B, R;
    if (B.parse(Bs) != URI_SUCCESS || R.parse(Rs) != URI_SUCCESS) { c.count("skipped_invalid"); return; }
    if (!B.faithful() || !R.faithful()) { c.count("skipped_unfaithful_parse"); return; }
    if (c.rng.chance(1, 4)) B.make_owner();
    if (c.rng.chance(1, 4)) R.make_owner();
    // a caller may fill in the structures itself: any non-zero absolutePath means "yes" (the model does not care how it is spelled)
    bool oddFlag = false;
    if (c.rng.chance(1, 10)) { oddFlag = true; static const int T[] = {2, -1, 0x100, 0x7FFFFFFF}; if (B.u.absolutePath) B.u.absolutePath = T[c.rng.below(4)]; if (R.u.absolutePath) R.u.absolutePath = T[c.rng.below(4)]; c.count("non_canonical_absolute_path_flag"); }
    Comp mb = split(Bs), mr = split(Rs);
    c.note(fmt("%s resolve base=\"%s\" ref=\"%s\"", X::tag(), esc(Bs.substr(0, 150)).c_str(), esc(Rs.substr(0, 150)).c_str()));
    Ledger led;
    bool sameObject = Bs == Rs;      // reference and base are the very same object
    for (int variant = 0; variant < 4; variant++) {
        // 0: AddBaseUri, 1: Ex strict, 2: Ex compat, 3: ExMm (strict or compat)
        bool compat = variant == 2 || (variant == 3 && c.rng.coin());
        // the option is the IDENTICAL-scheme compatibility option: "equals" is judged as character-for-character identity, so a reference
        // whose scheme differs from the base's in letter case only keeps its scheme (counted, to show the case was exercised)
        if (compat && mr.hasScheme && mb.hasScheme && mr.scheme != mb.scheme) {
            Str a = mr.scheme, b = mb.scheme; for (auto& ch : a) ch = (char)tolower((unsigned char)ch); for (auto& ch : b) ch = (char)tolower((unsigned char)ch);
            if (a == b) c.count("compat_schemes_differ_in_case_only");
        }
        Str snapB = deep_snapshot<X>(B.u), snapR = deep_snapshot<X>(R.u);
        UriBox<X> D; memset(&D.u, 0xEE, sizeof D.u); int rc;
        // the options word is a set of flags: other (so far meaningless) bits next to the compatibility bit change nothing
        static const unsigned EXTRA[] = {0x2u, 0xFEu, 0x7FFFFFFEu, 0x100u};
        unsigned optBits = (compat ? (unsigned)URI_RESOLVE_IDENTICAL_SCHEME_COMPAT : (unsigned)URI_RESOLVE_STRICTLY) | ((variant >= 2 && c.rng.chance(1, 6)) ? EXTRA[c.rng.below(4)] : 0u);
        if (optBits > 1) c.count("options_with_extra_bits");
        UriResolutionOptions opt = (UriResolutionOptions)optBits;
        c.stage((uint64_t)variant + 1);
        {
            LibScope ls;
            switch (variant) {
            case 0: rc = X::AddBaseUri(&D.u, sameObject ? &B.u : &R.u, &B.u); break;
            case 1: case 2: rc = X::AddBaseUriEx(&D.u, &R.u, &B.u, opt); break;
            default: D.led = &led; rc = X::AddBaseUriExMm(&D.u, &R.u, &B.u, opt, led.mgr()); break;
            }
        }
        c.evaluations++;
        if (deep_snapshot<X>(B.u) != snapB || deep_snapshot<X>(R.u) != snapR) c.violation("C12", fmt("resolve/%s/const-argument-modified", X::tag()), fmt("base=\"%s\" ref=\"%s\"", esc(Bs).c_str(), esc(Rs).c_str()));
        Comp T; bool ok = resolve(mb, mr, compat, &T);
        Str what = fmt("base=\"%s\" ref=\"%s\" %s", esc(Bs).c_str(), esc(Rs).c_str(), compat ? "compat" : "strict");
        if (!ok) {
            c.count("relative_base");
            if (rc != URI_ERROR_ADDBASE_REL_BASE) c.violation("C06", fmt("resolve/%s/relative-base-code", X::tag()), what + fmt(" rc=%d", rc));
            if (rc == URI_SUCCESS) D.live = true;
            if (variant == 3 && rc != URI_SUCCESS && led.outstanding()) { c.violation("C13", fmt("resolve/%s/leak-after-error", X::tag()), what + " " + led.describe_live()); led.release_all(); }
            continue;
        }
        if (rc != URI_SUCCESS) { c.violation("C06", fmt("resolve/%s/unexpected-error", X::tag()), what + fmt(" rc=%d", rc)); continue; }
        D.live = true;
        Str out = D.text_of_fields();
        Str expect = recompose(T);
        // branch histogram for the evidence
        const char* br = mr.hasScheme && !(compat && mr.scheme == mb.scheme) ? "branch_scheme" : mr.hasAuth ? "branch_authority" : mr.path.empty() ? "branch_empty_path" : mr.path[0] == '/' ? "branch_abs_path" : "branch_merge";
        c.count(br);
        // where the RFC result is a host-less path starting with "//", either form of the single "." guard segment is fine
        { Comp Tn; resolve(mb, mr, compat, &Tn, false);
          if (!Tn.hasAuth && Tn.path.size() >= 2 && Tn.path[0] == '/' && Tn.path[1] == '/') { Comp a1 = Tn, a2 = Tn; a1.path = "/." + Tn.path; a2.path = "./" + Tn.path; if (out == recompose(a1) || out == recompose(a2)) { expect = out; T.path = out == recompose(a1) ? a1.path : a2.path; c.count("guard_segment_results"); } } }
        // A rootless path whose ".." climb onto an empty segment ("a/..//c", "..//c" merged behind "a/"): RFC 5.2.4 on that very string
        // gives "//c" -- a host-less path beginning with "//", for which the property wants the "." guard ("/.//c"). The pinned library
        // keeps such a list rootless, which makes its text "/c": one slash short, and an absolute path made from a rootless one. The
        // calibrated model reproduced that; the strict reading is the property's, the library's result is a recorded finding.
        { Str pre; Comp Tx; resolve(mb, mr, compat, &Tx, false, &pre);
          if (!pre.empty() && !Tx.hasAuth) { Str strict = rfc_remove_dot_segments(pre);
              if (strict.size() >= 2 && strict[0] == '/' && strict[1] == '/' && Tx.path == strict.substr(1)) {
                  Comp g1 = Tx, g2 = Tx; g1.path = "/." + strict; g2.path = "./" + strict; c.count("rootless_climb_onto_empty_segment");
                  if (out == recompose(g1) || out == recompose(g2)) { expect = out; }
                  else if (out == recompose(Tx) || (Tx.path.size() >= 2 && Tx.path[0] == '/' && Tx.path[1] == '/' && [&]() { Comp l1 = Tx, l2 = Tx; l1.path = "/." + Tx.path; l2.path = "./" + Tx.path; return out == recompose(l1) || out == recompose(l2); }())) { c.violation("C06", fmt("resolve/%s/text/rootless-path-climbing-onto-an-empty-segment-loses-a-slash", X::tag()), what + fmt(" library=\"%s\" rfc-with-guard=\"%s\" [%s]", esc(out).c_str(), esc(recompose(g1)).c_str(), gen)); expect = out; }
                  else expect = recompose(g1); } } }
        if (out != expect) {
            // diagnose against the documented legacy behaviours (known findings); anything else is unexplained
            Str key = "unexplained";
            Comp Tng; resolve(mb, mr, compat, &Tng, false);
            Str noguard = recompose(Tng);
            if (out == noguard && expect != noguard) key = "guard-missing";                       // RFC result starts with "//" but no "." was put in front
            else {
                // guard present although the RFC result does not start with "//"
                Comp Tg = Tng; if (!Tg.hasAuth && !Tg.path.empty() && Tg.path[0] == '/') { Tg.path = "/." + Tg.path; if (recompose(Tg) == out) key = "guard-superfluous"; }
                if (key == "unexplained" && Tng.hasAuth) { Tg = Tng; Tg.path = "/." + Tng.path; if (recompose(Tg) == out) key = "guard-superfluous-under-authority"; }
            }
            c.violation("C06", fmt("resolve/%s/text/%s", X::tag(), key.c_str()), what + fmt(" library=\"%s\" rfc=\"%s\" [%s]", esc(out).c_str(), esc(expect).c_str(), gen));
        } else {
            // component-wise, on the re-split of the text, absent != empty
            size_t e; if (!dfa_uriref(out, &e)) c.violation("C06", fmt("resolve/%s/result-not-a-uri", X::tag()), what + fmt(" library=\"%s\"", esc(out).c_str()));
            else { ObjView v = D.view(); Comp held = v.c; Comp Tm = T; Str d = comp_diff(held, Tm); if (!v.malformed.empty()) d = ""; if (!d.empty() && d != "path") c.violation("C06", fmt("resolve/%s/component/%s", X::tag(), d.c_str()), what + fmt(" library=%s model=%s", held.describe().c_str(), Tm.describe().c_str())); }
        }
        c.distinct(hash_str(Bs + "\x01" + Rs, (uint64_t)compat));
        if (out == expect && !oddFlag) produced_equals_own_text<X>(c, D.u, "resolve", "addbase", what);     // a hand-set flag value travels into the result: not a library-produced URI in C11's sense
        D.free_members();
        if (variant == 3) {
            if (led.outstanding()) { c.violation("C13", fmt("resolve/%s/leak-after-free", X::tag()), what + " " + led.describe_live()); led.release_all(); }
            if (led.bad_free) { c.violation("C13", fmt("resolve/%s/bad-free", X::tag()), what + " " + led.bad_free_note); led.bad_free = 0; led.bad_free_note.clear(); }
        }
    }
}

static void run_case(Ctx& c, uint64_t idx) {
    Str B, R; const char* gen = "?"; gen_pair(c, idx, &B, &R, &gen);
    c.count(Str("gen_") + gen);
    run<ApiA>(c, B, R, gen);
    if (idx % 3 == 0) run<ApiW>(c, B, R, gen);
    if (idx % 5000 == 3) c.sample(gen, esc(B) + " + " + esc(R));
}
static void fuzz_one(Ctx& c, const unsigned char* d, size_t n) {
    if (n > 400) n = 400; Str B, R; fuzz_split2(d, n, &B, &R);
    run<ApiA>(c, B, R, "fuzz"); if (n & 1) run<ApiW>(c, B, R, "fuzz");
}
static Monitor mon = {"resolve", "C06: reference resolution against the RFC 3986 5.2 text model", "C06", ncases, run_case, nullptr, fuzz_one};
VF_REGISTER(mon);
}
