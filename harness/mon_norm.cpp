// Monitor "norm": C08 -- syntax normalisation against the text-level RFC 3986 6.2.2 model, all masks,
// borrowed and owned, idempotence, mask-required sufficiency.
// Monitor "normres": C09 -- normalisation commutes with resolution; scheme / authority / path kind preserved.
#include "vf_obj.hpp"
#include "vf_gen.hpp"

using namespace vf;
namespace {

// ---------------------------------------------------------------- C08
static const char* const N_PRE[] = {"", "/", "//h", "//h/", "a:", "a:/", "A://H%41%3a/", "//u%7e@[V1.AB]/"};
static const size_t NPRE = sizeof(N_PRE) / sizeof(N_PRE[0]);
// every character value in every component: literal (where the grammar allows it) and as a percent triplet in the four
// hex-case spellings -- the unreserved table, the case tables and "changing nothing else" are exercised entry by entry
static const char* const CH_TPL[][2] = {{"s://", "@h/p"}, {"S://", "/p"}, {"s://h/", "/q"}, {"", "/q"}, {"/", ""}, {"s://h/p?", ""}, {"s://h/p#", "#"}, {"", ":p"}, {"s://[v1.", "]/"}, {"//", ""}, {"?", ""}};
static const size_t NCHTPL = sizeof(CH_TPL) / sizeof(CH_TPL[0]);
static uint64_t norm_nchars() { return (uint64_t)NCHTPL * 255 * 6; }
static Str norm_char_case(uint64_t i) {
    const char* const* t = CH_TPL[i % NCHTPL]; i /= NCHTPL; unsigned b = 1 + (unsigned)(i % 255); i /= 255; unsigned v = (unsigned)i;   // v: 0 literal, 1 literal between letters, 2..5 triplet spellings
    Str x; static const char* HU = "0123456789ABCDEF"; static const char* HL = "0123456789abcdef";
    if (v == 0) x.push_back((char)b);
    else if (v == 1) { x += "A"; x.push_back((char)b); x += "z"; }
    else { x += "%"; x.push_back(((v - 2) & 1 ? HL : HU)[b >> 4]); x.push_back(((v - 2) & 2 ? HL : HU)[b & 15]); if (b & 1) x = "k" + x + "%4a"; }
    return Str(t[0]) + x + t[1];
}
static uint64_t norm_nsys() { return (uint64_t)NPRE * gpaths_count(4) + norm_nchars(); }
static uint64_t norm_ncases(Ctx& c) { return norm_nsys() + (uint64_t)c.param_int("random", c.tier == "thorough" ? 3000000 : 60000); }

static Str norm_input(Ctx& c, uint64_t idx, const char** gen) {
    if (idx < norm_nchars()) { *gen = "charset"; return norm_char_case(idx); }
    if (idx < norm_nsys()) { idx -= norm_nchars(); *gen = "systematic"; Str pre = N_PRE[idx % NPRE]; return pre + gpaths_case(idx / NPRE, 4); }
    Rng& r = c.rng; UriGenOpts o; o.maxSegs = 7;
    switch (r.below(5)) {
    case 0: *gen = "uri"; o.huge = true; return gen_uri(r, o);
    case 1: *gen = "dots"; o.dotHeavy = true; return gen_uri(r, o);
    case 2: *gen = "relative-dots"; o.dotHeavy = true; o.scheme = 0; o.auth = 0; return gen_uri(r, o);
    case 3: { *gen = "pct"; Str s = gen_uri(r, o); // sprinkle triplets in both cases, reserved and unreserved
        static const char* t[] = {"%41", "%7e", "%7E", "%2f", "%2F", "%3a", "%3A", "%c3%a4", "%61", "%2e", "%2D", "%5f", "%30", "%7B", "%7b"};
        int n = r.range(1, 4); for (int i = 0; i < n; i++) { size_t p = r.below((uint32_t)s.size() + 1); s.insert(p, t[r.below(15)]); }
        return s; }
    default: *gen = "upper"; { Str s = gen_uri(r, o); for (auto& ch : s) if (r.chance(1, 3)) ch = (char)toupper((unsigned char)ch); return s; }
    }
}

template <class X> Str text_of(Ctx&, UriBox<X>& b) { return b.text_of_fields(); }

template <class X> void norm_run(Ctx& c, const Str& s, const char* gen, uint64_t idx) {
    size_t e; if (!dfa_uriref(s, &e)) { c.count("skipped_invalid"); return; }
    Comp in = split(s);
    c.note(fmt("%s normalize \"%s\"", X::tag(), esc(s.substr(0, 200)).c_str()));
    Ledger led;
    // masks: all 64 for the systematic part and a sample; otherwise 8 random masks incl. ALL, and masks with undefined high bits
    std::vector<unsigned> masks;
    if (idx < norm_nsys() ? (idx % 8 == 0) : (idx % 16 == 0)) for (unsigned m = 0; m < 64; m++) masks.push_back(m);
    else { masks.push_back(63); masks.push_back(8); masks.push_back((unsigned)-1); for (int i = 0; i < 5; i++) masks.push_back(c.rng.below(64) | (c.rng.chance(1, 8) ? 0xFFFFFFC0u : 0)); }
    for (unsigned mask : masks) {
        for (int owned = 0; owned < 2; owned++) {
            UriBox<X> b; Ledger* l = ((mask == (unsigned)-1 ? (unsigned)(c.case_index & 1) : (mask & 1)) ^ (unsigned)owned) ? &led : nullptr;    // mask ~0 without manager goes through the plain uriNormalizeSyntax
            if (b.parse(s, l) != URI_SUCCESS) { c.count("parse_failed"); return; }
            if (!b.faithful()) { c.count("skipped_unfaithful_parse"); return; }
            if (owned && b.make_owner() != URI_SUCCESS) { c.count("makeowner_failed"); continue; }
            c.stage(mask * 2 + (unsigned)owned + 1);
            int rc = b.normalize(mask);
            c.evaluations++;
            Str what = fmt("input=\"%s\" mask=0x%x %s %s", esc(s).c_str(), mask, owned ? "owned" : "borrowed", l ? "custom-manager" : "default-manager");
            if (rc != URI_SUCCESS) { c.violation("C08", fmt("norm/%s/unexpected-error", X::tag()), what + fmt(" rc=%d", rc)); continue; }
            Str out = text_of<X>(c, b);
            Comp nm = normalize(in, mask & 63);
            StrVec okPaths = normalize_acceptable_paths(in, nm);
            bool match = false; Str expect = recompose(nm);
            for (const Str& p : okPaths) { Comp alt = nm; alt.path = p; if (recompose(alt) == out) match = true; }
            if (!match) {
                // diagnosis: which component differs, on the re-split of the output when possible
                Str key = "text";
                size_t e2; if (dfa_uriref(out, &e2)) { Comp got = split(out); Str d = comp_diff(got, nm); if (!d.empty()) key = "component/" + d; } else key = "result-not-a-uri";
                c.violation("C08", fmt("norm/%s/%s/%s", X::tag(), owned ? "owned" : "borrowed", key.c_str()), what + fmt(" library=\"%s\" model=\"%s\" [%s]", esc(out).c_str(), esc(expect).c_str(), gen));
            }
            if ((mask & 63) != 0 && !b.u.owner) c.violation("C12", fmt("norm/%s/not-owner-after-normalize", X::tag()), what);
            if (match) produced_equals_own_text<X>(c, b.u, "norm", owned ? "normalize-owned" : "normalize-borrowed", what);
            // idempotence
            int rc2 = b.normalize(mask); c.evaluations++;
            Str out2 = text_of<X>(c, b);
            if (rc2 != URI_SUCCESS || out2 != out) c.violation("C08", fmt("norm/%s/not-idempotent", X::tag()), what + fmt(" once=\"%s\" twice=\"%s\"", esc(out).c_str(), esc(out2).c_str()));
            // "lowercases scheme and host": for an IPv6 literal the recomposed text is written from the address bytes (lower case, judged
            // above); the spelling kept in the public hostText range is the input's. With HOST in the mask an upper-case hex digit there
            // has not been lowercased -- recorded finding (independent review), diagnosed as exactly this
            if ((mask & URI_NORMALIZE_HOST) && b.u.hostData.ip6 && b.u.hostText.first) { bool up = false; for (auto* q = b.u.hostText.first; q < b.u.hostText.afterLast; q++) if (*q >= 'A' && *q <= 'F') up = true;
                if (up) c.violation("C08", fmt("norm/%s/ipv6-host-text-keeps-its-upper-case", X::tag()), what); else c.count("ipv6_host_text_lower_case_after_normalize"); }
            c.distinct(hash_str(s, mask * 2 + (unsigned)owned));
            b.free_members();
            if (l) {
                if (l->outstanding()) { c.violation("C13", fmt("norm/%s/leak-after-free", X::tag()), what + " " + l->describe_live()); l->release_all(); }
                if (l->bad_free) { c.violation("C13", fmt("norm/%s/bad-free", X::tag()), what + " " + l->bad_free_note); l->bad_free = 0; l->bad_free_note.clear(); }
            }
        }
    }
    // mask-required: sufficient, and zero means already normal
    for (int owned = 0; owned < 2; owned++) {
        UriBox<X> a, b, q; if (a.parse(s) != URI_SUCCESS || b.parse(s) != URI_SUCCESS || q.parse(s) != URI_SUCCESS) return;
        if (owned) { a.make_owner(); b.make_owner(); q.make_owner(); }
        Str before = text_of<X>(c, q);
        Str snap = deep_snapshot<X>(q.u);
        unsigned m1; unsigned m2 = 0xdeadbeef; int rcq;
        { LibScope ls; m1 = X::NormalizeSyntaxMaskRequired(&q.u); rcq = X::NormalizeSyntaxMaskRequiredEx(&q.u, &m2); }
        c.evaluations += 2;
        Str what = fmt("input=\"%s\" %s", esc(s).c_str(), owned ? "owned" : "borrowed");
        if (deep_snapshot<X>(q.u) != snap) c.violation("C12", fmt("norm/%s/mask-query-modified-argument", X::tag()), what);
        if (rcq != URI_SUCCESS || m1 != m2) c.violation("C08", fmt("norm/%s/mask-required-variants-disagree", X::tag()), what + fmt(" m=0x%x ex=0x%x rc=%d", m1, m2, rcq));
        if (m1 & ~63u) c.violation("C08", fmt("norm/%s/mask-required-undefined-bits", X::tag()), what + fmt(" m=0x%x", m1));
        a.normalize(m1); b.normalize(63); c.evaluations += 2;
        Str ta = text_of<X>(c, a), tb = text_of<X>(c, b);
        if (m1 != 0 && ta != tb) c.violation("C08", fmt("norm/%s/mask-required-insufficient", X::tag()), what + fmt(" required=0x%x with-required=\"%s\" full=\"%s\"", m1, esc(ta).c_str(), esc(tb).c_str()));
        if (m1 == 0 && tb != before) c.violation("C08", fmt("norm/%s/mask-zero-but-not-normal", X::tag()), what + fmt(" full=\"%s\"", esc(tb).c_str()));
        c.count(m1 == 0 ? "mask_required_zero" : "mask_required_nonzero");
    }
}
static void norm_case(Ctx& c, uint64_t idx) {
    const char* gen = "?"; Str s = norm_input(c, idx, &gen); c.count(Str("gen_") + gen);
    norm_run<ApiA>(c, s, gen, idx);
    if (idx % 2 == 0) norm_run<ApiW>(c, s, gen, idx);
    if (idx % 3000 == 5) c.sample(gen, esc(s));
}
static void norm_fuzz(Ctx& c, const unsigned char* d, size_t n) {
    if (n > 300) n = 300; Str s((const char*)d, n);
    norm_run<ApiA>(c, s, "fuzz", 16 * (uint64_t)(n % 7 == 0)); if (n & 1) norm_run<ApiW>(c, s, "fuzz", 1);
}
static Monitor monN = {"norm", "C08: normalisation vs RFC 6.2.2 model, all masks, owned/borrowed, idempotence, mask-required", "C08", norm_ncases, norm_case, nullptr, norm_fuzz};
VF_REGISTER(monN);

// ---------------------------------------------------------------- C09
static const char* const R_PRE[] = {"", "/", "//g", "x:", "x:/", "?y"};
static const size_t NRPRE = sizeof(R_PRE) / sizeof(R_PRE[0]);
static const char* const R_BASES[] = {"a:b", "a:/b", "a://h", "a://h/p/q", "a:b/c/d", "a:/b/c/"};
static const size_t NRB = sizeof(R_BASES) / sizeof(R_BASES[0]);
static uint64_t nr_nsys() { return (uint64_t)NRPRE * NRB * gpaths_count(4); }
static uint64_t nr_ncases(Ctx& c) { return nr_nsys() + (uint64_t)c.param_int("random", c.tier == "thorough" ? 10000000 : 250000); }

static const char* path_kind(const Comp& m) { if (m.path.empty()) return "empty"; return m.path[0] == '/' ? "absolute" : "relative"; }

template <class X> void nr_run(Ctx& c, const Str& Rs, const Str& Bs, const char* gen) {
    size_t e; if (!dfa_uriref(Rs, &e) || !dfa_uriref(Bs, &e)) { c.count("skipped_invalid"); return; }
    Comp mr = split(Rs), mb = split(Bs);
    if (has_pct_dot_segment(mr.path)) { c.count("skipped_pct_dot"); return; }
    c.note(fmt("%s normres ref=\"%s\" base=\"%s\"", X::tag(), esc(Rs.substr(0, 150)).c_str(), esc(Bs.substr(0, 150)).c_str()));
    Str what = fmt("ref=\"%s\" base=\"%s\"", esc(Rs).c_str(), esc(Bs).c_str());
    // second sentence: normalisation keeps scheme / authority presence and the kind of a plain path reference
    UriBox<X> Rn; if (Rn.parse(Rs) != URI_SUCCESS) return;
    if (!Rn.faithful()) { c.count("skipped_unfaithful_parse"); return; }
    if (c.rng.coin()) Rn.make_owner();
    if (Rn.normalize(63) != URI_SUCCESS) { c.count("normalize_failed"); return; }
    c.evaluations++;
    Str rnText = text_of<X>(c, Rn);
    size_t e3; bool rnValid = dfa_uriref(rnText, &e3);
    if (!rnValid) c.violation("C09", fmt("normres/%s/normalized-text-not-a-uri", X::tag()), what + fmt(" normalized=\"%s\"", esc(rnText).c_str()));
    else {
        Comp mn = split(rnText);
        if (mn.hasScheme != mr.hasScheme) c.violation("C09", fmt("normres/%s/scheme-%s", X::tag(), mn.hasScheme ? "added" : "removed"), what + fmt(" normalized=\"%s\"", esc(rnText).c_str()));
        else if (mn.hasAuth != mr.hasAuth) c.violation("C09", fmt("normres/%s/authority-%s", X::tag(), mn.hasAuth ? "added" : "removed"), what + fmt(" normalized=\"%s\"", esc(rnText).c_str()));
        else if (!mr.hasScheme && !mr.hasAuth) {
            Str k0 = path_kind(mr), k1 = path_kind(mn);
            if ((k0 == "relative" && k1 != "relative") || (k0 == "absolute" && k1 == "relative")) {
                // known finding (kept for compatibility with the repository's own tests): a relative path whose segments
                // cancel out completely becomes empty. Confirmed only if the library's output is exactly the legacy output.
                Comp legacy = normalize(mr, 63);
                bool confirmed = k0 == "relative" && k1 == "empty" && legacy.path.empty() && recompose(legacy) == rnText;
                c.violation("C09", confirmed ? fmt("normres/%s/relative-path-cancels-to-empty", X::tag()) : fmt("normres/%s/path-kind/%s-to-%s", X::tag(), k0.c_str(), k1.c_str()), what + fmt(" normalized=\"%s\"", esc(rnText).c_str()));
            }
        }
    }
    if (!mb.hasScheme) return;
    // first sentence: normalize(resolve(normalize(R),B)) == normalize(resolve(R,B))
    UriBox<X> B, R; if (B.parse(Bs) != URI_SUCCESS || R.parse(Rs) != URI_SUCCESS) return;
    if (!B.faithful()) { c.count("skipped_unfaithful_parse"); return; }
    UriBox<X> T1, T2; int r1, r2;
    // mostly the plain entry point; now and then ...Ex / ...ExMm with an options word whose compatibility bit is clear but another bit set
    // (strict resolution all the same)
    int how = (int)c.rng.below(8); static const unsigned OW[] = {0x2u, 0x100u, 0x7FFFFFFEu};
    UriResolutionOptions ow = (UriResolutionOptions)OW[c.rng.below(3)];
    { LibScope ls; r1 = how == 0 ? X::AddBaseUriEx(&T1.u, &Rn.u, &B.u, ow) : how == 1 ? X::AddBaseUriExMm(&T1.u, &Rn.u, &B.u, ow, nullptr) : X::AddBaseUri(&T1.u, &Rn.u, &B.u); } T1.live = r1 == URI_SUCCESS;
    { LibScope ls; r2 = how == 0 ? X::AddBaseUriEx(&T2.u, &R.u, &B.u, ow) : how == 1 ? X::AddBaseUriExMm(&T2.u, &R.u, &B.u, ow, nullptr) : X::AddBaseUri(&T2.u, &R.u, &B.u); } T2.live = r2 == URI_SUCCESS;
    c.evaluations += 2;
    if (r1 != URI_SUCCESS || r2 != URI_SUCCESS) { c.violation("C09", fmt("normres/%s/resolve-failed", X::tag()), what + fmt(" rc=%d/%d", r1, r2)); return; }
    if (T1.normalize(63) != URI_SUCCESS || T2.normalize(63) != URI_SUCCESS) { c.count("normalize_failed"); return; }
    Str t1 = text_of<X>(c, T1), t2 = text_of<X>(c, T2);
    int eq; { LibScope ls; eq = X::EqualsUri(&T1.u, &T2.u); }
    c.distinct(hash_str(Rs + "\x01" + Bs));
    bool cancels = false;
    if (t1 != t2 && !mr.hasScheme && !mr.hasAuth && !mr.path.empty() && mr.path[0] != '/') {
        // same root cause as above, confirmed against the models: normalize(R) has an empty path, the library resolved that
        // (to the base's own path) exactly as the model does, and the direct route is the model's result too
        Comp rn = normalize(mr, 63), viaN, direct;
        if (rn.path.empty() && resolve(mb, rn, false, &viaN) && resolve(mb, mr, false, &direct)) {
            Comp nv = normalize(viaN, 63), nd = normalize(direct, 63);
            bool okV = false, okD = false;
            for (const Str& pth : normalize_acceptable_paths(viaN, nv)) { Comp a = nv; a.path = pth; if (recompose(a) == t1) okV = true; }
            for (const Str& pth : normalize_acceptable_paths(direct, nd)) { Comp a = nd; a.path = pth; if (recompose(a) == t2) okD = true; }
            cancels = okV && okD;
        }
    }
    if (t1 != t2) c.violation("C09", cancels ? fmt("normres/%s/does-not-commute/relative-path-cancels-to-empty", X::tag()) : fmt("normres/%s/does-not-commute", X::tag()), what + fmt(" via-normalized=\"%s\" direct=\"%s\" normalized-ref=\"%s\" [%s]", esc(t1).c_str(), esc(t2).c_str(), esc(rnText).c_str(), gen));
    else if (!eq) c.violation("C09", fmt("normres/%s/same-text-not-equal", X::tag()), what + fmt(" text=\"%s\"", esc(t1).c_str()));
    else c.count("commutes");
}
static void nr_case(Ctx& c, uint64_t idx) {
    Str R, B; const char* gen;
    if (idx < nr_nsys()) { gen = "systematic"; uint64_t i = idx; Str pre = R_PRE[i % NRPRE]; i /= NRPRE; B = R_BASES[i % NRB]; i /= NRB; Str p = gpaths_case(i, 4); R = pre[0] == '?' ? p + pre : pre + p; }
    else { Rng& r = c.rng; UriGenOpts o; o.dotHeavy = r.chance(3, 4); o.noPctDots = true; o.maxSegs = 7; if (r.chance(2, 3)) { o.scheme = 0; o.auth = 0; } gen = "random"; R = gen_uri(r, o); B = gen_abs_base(r); }
    c.count(Str("gen_") + gen);
    nr_run<ApiA>(c, R, B, gen);
    if (idx % 4 == 0) nr_run<ApiW>(c, R, B, gen);
    if (idx % 5000 == 9) c.sample(gen, esc(R) + " against " + esc(B));
}
static void nr_fuzz(Ctx& c, const unsigned char* d, size_t n) {
    if (n > 400) n = 400; Str B, R; fuzz_split2(d, n, &B, &R);
    nr_run<ApiA>(c, R, B, "fuzz"); if (n & 1) nr_run<ApiW>(c, R, B, "fuzz");
}
static Monitor monR = {"normres", "C09: normalisation commutes with resolution and preserves scheme/authority/path kind", "C09", nr_ncases, nr_case, nullptr, nr_fuzz};
VF_REGISTER(monR);
}
