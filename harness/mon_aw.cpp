// Monitor "aw": C19 -- every public function pair is run back to back through the char and the
// wchar_t API on the same input; return codes, offsets, components, texts, counts and sizes must agree.
// Wide outputs go to exact-size buffers (in characters), so bytes-for-characters slips overflow or under-fill.
#include "vf_obj.hpp"
#include "vf_gen.hpp"
#include <climits>

using namespace vf;
namespace {

static uint64_t ncases(Ctx& c) { return (uint64_t)c.param_int("cases", c.tier == "thorough" ? 6000000 : 250000); }

// field separator of the flat result strings is ';' -- values never contain it (the violation key is the name of the first differing field)
static Str escv(const Str& x) { Str e = esc(x), o; for (char ch : e) { if (ch == ';') o += "\\x3b"; else o.push_back(ch); } return o; }
struct ParseRes { int rc; long errOff; Str view; };
template <class X> ParseRes do_parse(const Str& s, int entry) {
    typedef typename X::Char Char;
    typename X::S w = widen<X>(s); ParseRes r; r.errOff = -1;
    typename X::Uri u; const Char* ep = nullptr; typename X::State st; st.uri = &u;
    std::vector<Char> buf(w.begin(), w.end()); buf.push_back(0);
    { LibScope ls; if (entry == 0) { r.rc = X::ParseUriEx(&st, buf.data(), buf.data() + w.size()); ep = st.errorPos; } else if (entry == 1) r.rc = X::ParseSingleUri(&u, buf.data(), &ep); else r.rc = X::ParseSingleUriEx(&u, buf.data(), buf.data() + w.size(), &ep); }
    if (r.rc != URI_SUCCESS) { if (ep) r.errOff = (long)(ep - buf.data()); { LibScope ls; X::FreeUriMembers(&u); } return r; }
    ObjView v = read_uri<X>(u, buf.data(), w.size());
    r.view = escv(v.c.describe()) + fmt(" abs=%d owner=%d nseg=%zu off=%ld,%ld,%ld,%ld,%ld,%ld,%ld,%ld,%ld,%ld,%ld,%ld", (int)v.abs, (int)v.owner, v.segs.size(), v.oScheme.first, v.oScheme.after, v.oUser.first, v.oUser.after,
                                 v.oHost.first, v.oHost.after, v.oPort.first, v.oPort.after, v.oQuery.first, v.oQuery.after, v.oFrag.first, v.oFrag.after) + " ip=" + hexs(v.c.ip.data(), v.c.ip.size());
    for (auto& o : v.oSegs) r.view += fmt(" [%ld,%ld)", o.first, o.after);
    int need = -1, wr = -1; { LibScope ls; X::ToStringCharsRequired(&u, &need); }
    if (need >= 0) { Char* out = (Char*)malloc(((size_t)need + 1) * sizeof(Char)); int trc; { LibScope ls; trc = X::ToString(out, &u, need + 1, &wr); } r.view += fmt(" tostring rc=%d need=%d written=%d text=", trc, need, wr) + (trc == 0 ? escv(narrow<X>(out, out + need)) : Str()); free(out);
        if (need > 0) { Char* o2 = (Char*)malloc((size_t)need * sizeof(Char)); int w2 = -1; int t2; { LibScope ls; t2 = X::ToString(o2, &u, need, &w2); } r.view += fmt(" short rc=%d written=%d", t2, w2); free(o2); } }
    unsigned mr; { LibScope ls; mr = X::NormalizeSyntaxMaskRequired(&u); } r.view += fmt(" maskRequired=0x%x", mr);
    { LibScope ls; X::FreeUriMembers(&u); }
    return r;
}

template <class X> Str do_ops(const Str& a, const Str& b, unsigned mask, int flag) {
    UriBox<X> A, B; Str out;
    if (A.parse(a) != URI_SUCCESS || B.parse(b) != URI_SUCCESS) return "unparsable";
    { UriBox<X> D; int rc; { LibScope ls; rc = X::AddBaseUriEx(&D.u, &A.u, &B.u, flag ? URI_RESOLVE_IDENTICAL_SCHEME_COMPAT : URI_RESOLVE_STRICTLY); } D.live = rc == 0; Str t; if (D.live) D.str(&t); out += fmt("addbase rc=%d text=%s;", rc, escv(t).c_str()); }
    { UriBox<X> D; int rc; { LibScope ls; rc = X::RemoveBaseUri(&D.u, &A.u, &B.u, flag); } D.live = rc == 0; Str t; if (D.live) D.str(&t); out += fmt("removebase rc=%d text=%s;", rc, escv(t).c_str()); }
    { int e; { LibScope ls; e = X::EqualsUri(&A.u, &B.u); } out += fmt("equals=%d;", e); }
    // the plain (non-Ex) wrappers, and a stated capacity far above the need ("no limit"): the block holds required+1 characters
    { UriBox<X> D; int rc; { LibScope ls; rc = X::AddBaseUri(&D.u, &A.u, &B.u); } D.live = rc == 0; Str t; if (D.live) D.str(&t); out += fmt("addbase-plain rc=%d text=%s;", rc, escv(t).c_str()); }
    { UriBox<X> C; C.parse(a); int rc; { LibScope ls; rc = X::NormalizeSyntax(&C.u); } Str t; C.str(&t); out += fmt("normalize-plain rc=%d text=%s;", rc, escv(t).c_str()); }
    { int req = -1, rc; { LibScope ls; rc = X::ToStringCharsRequired(&A.u, &req); }
      if (rc == 0 && req >= 0) { typedef typename X::Char Char; static const int CAPS[] = {INT_MAX, INT_MAX / 2, INT_MAX / 4 + 1, INT_MAX / 4, 1 << 20};
          static const bool both = reserve_block((size_t)INT_MAX * sizeof(char)) && reserve_block((size_t)INT_MAX * sizeof(wchar_t));   // same fields for both APIs or for none
          Char* o = both ? (Char*)reserve_block((size_t)INT_MAX * sizeof(Char)) : nullptr;
          if (o) for (int cap : CAPS) { int wr = -7; o[0] = 0; { LibScope ls; rc = X::ToString(o, &A.u, cap, &wr); } out += fmt("tostring-cap%d rc=%d written=%d len=%zu;", cap, rc, wr, rc == 0 ? xstrlen<X>(o) : (size_t)0); } } }
    { UriBox<X> C; C.parse(a); int rc = C.make_owner(); Str t; C.str(&t); out += fmt("makeowner rc=%d text=%s;", rc, escv(t).c_str()); rc = C.normalize(mask); C.str(&t); out += fmt("normalize-owned rc=%d text=%s;", rc, escv(t).c_str()); }
    { int rc = A.normalize(mask); Str t; A.str(&t); unsigned m2; { LibScope ls; m2 = X::NormalizeSyntaxMaskRequired(&A.u); } out += fmt("normalize rc=%d text=%s mask-after=0x%x;", rc, escv(t).c_str(), m2); }
    return out;
}

template <class X> Str do_strings(const Str& s, int plus, int nb, int br) {
    typedef typename X::Char Char; Str out;
    typename X::S w = widen<X>(s);
    { size_t bound = (nb ? 6 : 3) * s.size() + 1; Char* o = (Char*)malloc(bound * sizeof(Char)); Char* e; { LibScope ls; e = X::EscapeEx(w.data(), w.data() + w.size(), o, plus, nb); } out += fmt("escape off=%ld text=%s;", e ? (long)(e - o) : -1L, e ? escv(narrow<X>(o, e)).c_str() : ""); free(o); }
    { Char* io = (Char*)malloc((s.size() + 1) * sizeof(Char)); for (size_t i = 0; i < s.size(); i++) io[i] = w[i]; io[s.size()] = 0; const Char* e; { LibScope ls; e = X::UnescapeInPlaceEx(io, plus, (UriBreakConversion)br); } out += fmt("unescape off=%ld text=%s;", e ? (long)(e - io) : -1L, e ? escv(narrow<X>(io, e)).c_str() : ""); free(io); }
    // the plain (non-Ex) wrappers: same text, default options
    { size_t bound = (nb ? 6 : 3) * s.size() + 1; Char* o = (Char*)malloc(bound * sizeof(Char)); Char* e; { LibScope ls; e = X::Escape(w.c_str(), o, plus, nb); } out += fmt("escape-plain off=%ld text=%s;", e ? (long)(e - o) : -1L, e ? escv(narrow<X>(o, e)).c_str() : ""); free(o); }
    { Char* io = (Char*)malloc((s.size() + 1) * sizeof(Char)); for (size_t i = 0; i < s.size(); i++) io[i] = w[i]; io[s.size()] = 0; const Char* e; { LibScope ls; e = X::UnescapeInPlace(io); } out += fmt("unescape-plain off=%ld text=%s;", e ? (long)(e - io) : -1L, e ? escv(narrow<X>(io, e)).c_str() : ""); free(io); }
    {
        typename X::QList* list = nullptr; int count = -1; int rc; { LibScope ls; rc = X::DissectQueryMalloc(&list, &count, w.data(), w.data() + w.size()); }
        out += fmt("dissect-plain rc=%d count=%d;plain-items=", rc, count);
        if (rc == 0 && list) {
            for (auto* l = list; l; l = l->next) out += "(" + escv(narrow<X>(l->key, l->key + xstrlen<X>(l->key))) + "=" + (l->value ? escv(narrow<X>(l->value, l->value + xstrlen<X>(l->value))) : Str("<null>")) + ")";
            int req = -1; { LibScope ls; rc = X::ComposeQueryCharsRequired(list, &req); } out += fmt(";required-plain rc=%d %d;", rc, req);
            if (req >= 0) { Char* o = (Char*)malloc(((size_t)req + 1) * sizeof(Char)); int wr = -1; { LibScope ls; rc = X::ComposeQuery(o, list, req + 1, &wr); } out += fmt("compose-plain rc=%d written=%d text=%s;", rc, wr, rc == 0 ? escv(narrow<X>(o, o + xstrlen<X>(o))).c_str() : ""); free(o); }
            Char* m = nullptr; { LibScope ls; rc = X::ComposeQueryMalloc(&m, list); } out += fmt("composemalloc-plain rc=%d text=%s;", rc, rc == 0 ? escv(narrow<X>(m, m + xstrlen<X>(m))).c_str() : ""); if (rc == 0) free(m);
        }
        { LibScope ls; X::FreeQueryList(list); }
    }
    // filename functions: exact documented sizes
    {
        std::vector<Char> name(w.begin(), w.end()); name.push_back(0); size_t n = s.size();
        for (int ux = 0; ux < 2; ux++) {
            bool absolute = ux ? (n && s[0] == '/') : ((n >= 2 && s[1] == ':') || (n >= 2 && s[0] == '\\' && s[1] == '\\'));
            size_t bound = (absolute ? (ux ? 7 : 8) : 0) + 3 * n + 1;
            Char* o = (Char*)malloc(bound * sizeof(Char)); int rc; { LibScope ls; rc = ux ? X::UnixFilenameToUriString(name.data(), o) : X::WindowsFilenameToUriString(name.data(), o); }
            size_t len = xstrlen<X>(o); out += fmt("tofile%d rc=%d text=%s;", ux, rc, escv(narrow<X>(o, o + len)).c_str());
            Char* bk = (Char*)malloc((len + 3) * sizeof(Char)); { LibScope ls; rc = ux ? X::UriStringToUnixFilename(o, bk) : X::UriStringToWindowsFilename(o, bk); }
            out += fmt("fromfile%d rc=%d text=%s;", ux, rc, escv(narrow<X>(bk, bk + xstrlen<X>(bk))).c_str()); free(bk); free(o);
        }
    }
    // the same text taken for a URI string: back to a file name, both flavours (the result never is longer than the input)
    {
        std::vector<Char> u(w.begin(), w.end()); u.push_back(0);
        for (int ux = 0; ux < 2; ux++) { Char* bk = (Char*)malloc((s.size() + 1) * sizeof(Char)); int rc; { LibScope ls; rc = ux ? X::UriStringToUnixFilename(u.data(), bk) : X::UriStringToWindowsFilename(u.data(), bk); }
            out += fmt("asuri%d rc=%d text=%s;", ux, rc, rc == 0 ? escv(narrow<X>(bk, bk + xstrlen<X>(bk))).c_str() : ""); free(bk); }
    }
    // query: dissect the string, compose the list again
    {
        typename X::QList* list = nullptr; int count = -1; int rc; { LibScope ls; rc = X::DissectQueryMallocEx(&list, &count, w.data(), w.data() + w.size(), plus, (UriBreakConversion)br); }
        out += fmt("dissect rc=%d count=%d;dissected-items=", rc, count);
        if (rc == 0 && list) {
            for (auto* l = list; l; l = l->next) out += "(" + escv(narrow<X>(l->key, l->key + xstrlen<X>(l->key))) + "=" + (l->value ? escv(narrow<X>(l->value, l->value + xstrlen<X>(l->value))) : Str("<null>")) + ")";
            int req = -1; { LibScope ls; rc = X::ComposeQueryCharsRequiredEx(list, &req, plus, nb); } out += fmt(";required rc=%d %d;", rc, req);
            if (req >= 0) { Char* o = (Char*)malloc(((size_t)req + 1) * sizeof(Char)); int wr = -1; { LibScope ls; rc = X::ComposeQueryEx(o, list, req + 1, &wr, plus, nb); } out += fmt("compose rc=%d written=%d text=%s;", rc, wr, rc == 0 ? escv(narrow<X>(o, o + xstrlen<X>(o))).c_str() : ""); free(o); }
            Char* m = nullptr; { LibScope ls; rc = X::ComposeQueryMallocEx(&m, list, plus, nb); } out += fmt("composemalloc rc=%d text=%s;", rc, rc == 0 ? escv(narrow<X>(m, m + xstrlen<X>(m))).c_str() : ""); if (rc == 0) free(m);
        }
        { LibScope ls; X::FreeQueryList(list); }
    }
    // IPv4 parser
    { unsigned char oct[4] = {9, 9, 9, 9}; int rc; { LibScope ls; rc = X::ParseIpFourAddress(oct, w.data(), w.data() + w.size()); } out += fmt("ip4 rc=%d %u.%u.%u.%u;", rc, oct[0], oct[1], oct[2], oct[3]); }
    return out;
}

static void diff(Ctx& c, const char* what, const Str& input, const Str& a, const Str& w) {
    c.evaluations += 2;
    if (a == w) { c.count(Str("agree_") + what); return; }
    size_t i = 0; while (i < a.size() && i < w.size() && a[i] == w[i]) i++;
    size_t from = i > 60 ? i - 60 : 0;
    // name the first differing field for the key
    size_t f = a.rfind(';', i); Str field = a.substr(f == Str::npos ? 0 : f + 1, 14); size_t sp = field.find_first_of(" ="); if (sp != Str::npos) field.resize(sp);
    c.violation("C19", fmt("aw/%s/%s", what, field.c_str()), fmt("input=%s char: ...%s wchar_t: ...%s", input.c_str(), a.substr(from, 200).c_str(), w.substr(from, 200).c_str()));
}

static void run_case(Ctx& c, uint64_t idx) {
    Rng& r = c.rng;
    switch (idx % 3) {
    case 0: {
        Str s; switch (r.below(5)) { case 0: s = gwalk(r, 60, r.coin()); break; case 1: s = mutate(r, gen_uri(r), 1); break; case 2: s = gcover_case(r.below((uint32_t)gcover_count()), r); break; default: s = gen_uri(r); }
        if (s.find('\0') != Str::npos) for (auto& ch : s) if (!ch) ch = 1;
        int entry = (int)r.below(3);
        c.note("aw parse \"" + esc(s.substr(0, 200)) + "\""); c.distinct(hash_str(s, 1));
        ParseRes a = do_parse<ApiA>(s, entry), w = do_parse<ApiW>(s, entry);
        diff(c, "parse", "\"" + esc(s) + "\"", fmt("rc=%d errOff=%ld ", a.rc, a.errOff) + a.view, fmt("rc=%d errOff=%ld ", w.rc, w.errOff) + w.view);
        if (idx % 30000 == 0) c.sample("parse", esc(s));
        break; }
    case 1: {
        UriGenOpts o; o.dotHeavy = r.coin(); o.maxSegs = 6; Str a = gen_uri(r, o), b = r.coin() ? gen_abs_base(r) : gen_uri(r, o);
        if (r.chance(1, 4) && !a.empty()) {      // near twins: one letter or digit differs (anywhere, often late), everything else shared -- comparisons that look at a prefix only
            if (r.coin()) a = gen_abs_base(r) + (a.find(':') == Str::npos && a[0] != '/' ? "/" + a : Str("/x"));
            b = a; for (int tries = 0; tries < 8; tries++) { size_t p = r.coin() ? b.size() - 1 - r.below((uint32_t)std::min<size_t>(b.size(), 6)) : r.below((uint32_t)b.size()); unsigned char ch = (unsigned char)b[p];
                if (isalnum(ch) && (p < 2 || b[p - 1] != '%') && (p < 2 || b[p - 2] != '%')) { b[p] = (char)(isdigit(ch) ? '0' + (ch - '0' + 1) % 10 : (islower(ch) ? 'a' + (ch - 'a' + 1) % 26 : 'A' + (ch - 'A' + 1) % 26)); break; } }
        }
        unsigned mask = r.chance(1, 3) ? 63u : r.below(64); int flag = (int)r.below(2);
        c.note("aw ops \"" + esc(a.substr(0, 120)) + "\" \"" + esc(b.substr(0, 120)) + "\""); c.distinct(hash_str(a + "\x01" + b, 2));
        diff(c, "ops", "\"" + esc(a) + "\" , \"" + esc(b) + fmt("\" mask=0x%x flag=%d", mask, flag), do_ops<ApiA>(a, b, mask, flag), do_ops<ApiW>(a, b, mask, flag));
        if (idx % 30000 == 1) c.sample("ops", esc(a) + " , " + esc(b));
        break; }
    default: {
        Str s; switch (r.below(5)) { case 4: { static const char* const US[] = {"file://localhost/etc/fstab", "file:///x%20y", "file:/x", "file:c:/x", "file://srv/share/a", "FILE:///x", "file://localhost", "file:///C:/x%41", "file:///C|/x", "rel/x%41", "file:", "file://", "file:///", "file://LOCALHOST/x", "file://localhost:80/x", "http://h/p", "file:////srv/x"}; s = US[r.below(17)]; if (r.chance(1, 4)) s = mutate(r, s, 1); } break;
            case 0: s = gen_filename_unix(r); break; case 1: s = gen_filename_win(r); break; case 2: { static const char* ip[] = {"1.2.3.4", "255.255.255.255", "256.1.1.1", "1.2.3", "01.2.3.4", "1.2.3.4.", "0.0.0.0", "1.2.3.4x", "999.1.1.1", "25.25.25.25", "1..2.3"}; s = ip[r.below(11)]; if (r.coin()) s = mutate(r, s, 1); } break; default: s = gen_string(r, 24); }
        if (r.chance(1, 24)) {      // a query as real ones look: short keys, one long token that needs no escaping (digest, session id, JWT)
            static const char tk[] = "0123456789abcdefABCDEFghijklmnopqrstuvwxyzGHIJKLMNOPQRSTUVWXYZ-._~"; Str t(special_length(r) % 1100, 'a'); int style = (int)r.below(3); for (auto& ch : t) ch = tk[style == 0 ? r.below(16) : r.below(sizeof tk - 1)];
            s = r.coin() ? "user=j&sig=" + t : t + "=1&x"; }
        for (auto& ch : s) if (!ch) ch = 1;
        int plus = (int)r.below(2), nb = (int)r.below(2), br = (int)r.below(4);
        c.note("aw strings \"" + esc(s.substr(0, 200)) + "\""); c.distinct(hash_str(s, 3));
        diff(c, "strings", "\"" + esc(s) + fmt("\" plus=%d nb=%d br=%d", plus, nb, br), do_strings<ApiA>(s, plus, nb, br), do_strings<ApiW>(s, plus, nb, br));
        if (idx % 30000 == 2) c.sample("strings", esc(s));
        break; }
    }
}
static Monitor mon = {"aw", "C19: char and wchar_t APIs back to back on the same input, field-by-field agreement", "C19", ncases, run_case, nullptr};
VF_REGISTER(mon);
}
