// A URI object together with the text it borrows from and the memory manager it was
// created under. Text lives in an exact-size heap block (red zones under ASan).
#ifndef VF_OBJ_HPP
#define VF_OBJ_HPP 1
#include "vf_read.hpp"

namespace vf {

// Did the parser represent `text` faithfully in `u` (components, host kind and bytes, segments, flags as the grammar says)?
template <class X> bool faithful_uri(const typename X::Uri& u, const Str& text) {
    size_t e; if (!dfa_uriref(text, &e)) return false;
    ObjView v = read_uri<X>(u); if (!v.malformed.empty()) return false;
    Comp m = split(text); if (!comp_diff(v.c, m).empty()) return false;
    bool mabs; StrVec msegs; path_to_segments(m.path, m.hasAuth, &mabs, &msegs);
    return mabs == v.abs && msegs == v.segs;
}

template <class X> struct UriBox {
    typedef typename X::Char Char; typedef typename X::Uri Uri;
    Uri u; bool live = false;
    Char* text = nullptr; size_t len = 0;     // borrowed source text (may be released early on purpose)
    Ledger* led = nullptr;                    // nullptr = default manager
    Str srcText;                              // model text it was parsed from (if parsed)

    UriBox() { memset(&u, 0, sizeof u); }
    UriBox(const UriBox&) = delete;
    ~UriBox() { free_members(); drop_text(); }
    UriMemoryManager* mm() const { return led ? led->mgr() : nullptr; }
    void set_text(const Str& s) {
        drop_text(); len = s.size(); text = (Char*)malloc((len ? len : 1) * sizeof(Char));
        for (size_t i = 0; i < len; i++) text[i] = X::wid((unsigned char)s[i]);
        srcText = s;
    }
    void drop_text() { if (text) { ::free(text); text = nullptr; } }
    void scribble_text(unsigned char pat) { if (text) for (size_t i = 0; i < len; i++) text[i] = X::wid((unsigned char)(pat ^ (i * 7))); }
    int parse(const Str& s, Ledger* l = nullptr) {
        free_members(); set_text(s); led = l;
        const Char* ep = nullptr; int rc;
        { AttrScope at("C03"); LibScope ls; rc = l ? X::ParseSingleUriExMm(&u, text, text + len, &ep, l->mgr()) : X::ParseSingleUriEx(&u, text, text + len, &ep); }
        live = rc == URI_SUCCESS;
        if (!live) memset(&u, 0, sizeof u);
        return rc;
    }
    // parse a range of somebody else's buffer (several boxes may view one buffer; nothing is copied, nothing is released with the box)
    int parse_view(const Char* p, size_t n, const Str& model) {
        free_members(); drop_text(); len = n; led = nullptr; srcText = model;
        const Char* ep = nullptr; int rc; { AttrScope at("C03"); LibScope ls; rc = X::ParseSingleUriEx(&u, p, p + n, &ep); }
        live = rc == URI_SUCCESS; if (!live) memset(&u, 0, sizeof u); return rc;
    }
    void free_members() {
        if (!live) return;
        LibScope ls;
        if (led) X::FreeUriMembersMm(&u, led->mgr()); else X::FreeUriMembers(&u);
        live = false;
    }
    int make_owner() { LibScope ls; return led ? X::MakeOwnerMm(&u, led->mgr()) : X::MakeOwner(&u); }
    // all three entry points: ...ExMm under a custom manager, ...Ex, and the plain uriNormalizeSyntax (= every bit set) for mask ~0
    int normalize(unsigned mask) { LibScope ls; return led ? X::NormalizeSyntaxExMm(&u, mask, led->mgr()) : mask == (unsigned)-1 ? X::NormalizeSyntax(&u) : X::NormalizeSyntaxEx(&u, mask); }
    int str(Str* out) const { AttrScope at("C05"); return to_string<X>(u, out); }
    // Text of the object by the harness' own recomposition of the fields (independent of uriToString): used by the checks
    // whose property is not about recomposition, so that a recomposition defect is not blamed on them.
    Str text_of_fields() const { ObjView v = read_uri<X>(u); if (!v.malformed.empty()) return "<malformed: " + v.malformed + ">"; return recompose(v.c); }
    // Did the parser represent the text faithfully (components, host kind and bytes, segments, flags as the grammar says)?
    // Checks that start from parsed objects skip a case when it did not: that is C01/C02's business, not theirs.
    bool faithful() const { return live && faithful_uri<X>(u, srcText); }
    ObjView view() const { return read_uri<X>(u); }
};

// C11 on a produced object: it and the parse of its own recomposed text are two library-produced URIs with identical
// text, hence equal, both ways round. (An operation that leaves a second representation of the same text -- a lone empty
// segment, a rootless list that starts with an empty segment -- shows here.) Texts that are not URI references, or that
// do not read back as themselves, are other properties' business and are skipped.
template <class X> void produced_equals_own_text(Ctx& c, const typename X::Uri& u, const char* mon, const char* op, const Str& what) {
    AttrScope at("C11");
    Str t; if (to_string<X>(u, &t) != URI_SUCCESS) return;
    size_t e; if (!dfa_uriref(t, &e)) return;
    UriBox<X> p; if (p.parse(t) != URI_SUCCESS) return;
    Str t2; if (to_string<X>(p.u, &t2) != URI_SUCCESS || t2 != t) return;
    int e1, e2; { LibScope ls; e1 = X::EqualsUri(&u, &p.u); e2 = X::EqualsUri(&p.u, &u); } c.evaluations += 2;
    if (!e1 || !e2) c.violation("C11", fmt("%s/%s/%s/produced-object-not-equal-to-parse-of-its-text", mon, X::tag(), op), what + fmt(" text=\"%s\"", esc(t).c_str()));
    else c.count("produced_equals_reparse");
}

// Checks the C07 clause on one object: well formed, text is a URI reference, re-read text has
// the same components as the object. Returns "" if fine, else a short reason; *textOut = recomposed text.
template <class X> Str meaning_check(const typename X::Uri& u, Str* textOut, Comp* held = nullptr) {
    ObjView v = read_uri<X>(u);
    if (!v.malformed.empty()) return "malformed: " + v.malformed;
    Str t; int rc = to_string<X>(u, &t);
    if (rc != URI_SUCCESS) return fmt("uriToString failed rc=%d", rc);
    if (textOut) *textOut = t;
    if (held) *held = v.c;
    size_t o;
    if (!dfa_uriref(t, &o)) return fmt("text is not a URI reference (error at %zu)", o);
    Comp m = split(t);
    Str d = comp_diff(v.c, m);
    if (!d.empty()) return "re-read " + d + " differs";
    return "";
}

} // namespace vf
#endif
