// Monitor "parse": C01 (language + error position), C02 (components), C04 (recomposition),
// and the single-range part of C03 (guarded input, no residue on failure).
#include "vf_read.hpp"
#include "vf_gen.hpp"
#include <arpa/inet.h>

using namespace vf;

namespace {

struct ExpOff { long scheme = -1, user = -1, host = -1, port = -1, query = -1, frag = -1; std::vector<long> segs; };
static ExpOff expected_offsets(const Str& s, const Comp& m, bool abs, const StrVec& segs) {
    ExpOff e; long pos = 0;
    if (m.hasScheme) { e.scheme = 0; pos = (long)m.scheme.size() + 1; }
    if (m.hasAuth) {
        pos += 2;
        if (m.hasUser) { e.user = pos; pos += (long)m.user.size() + 1; }
        bool br = m.hostKind == HK_IP6 || m.hostKind == HK_FUTURE;
        if (br) pos++;
        e.host = pos; pos += (long)m.host.size();
        if (br) pos++;
        if (m.hasPort) { pos++; e.port = pos; pos += (long)m.port.size(); }
    }
    if (abs || (m.hasAuth && !segs.empty())) pos++;
    for (size_t i = 0; i < segs.size(); i++) { e.segs.push_back(pos); pos += (long)segs[i].size() + 1; }
    if (!segs.empty()) pos--;
    if (m.hasQuery) { pos++; e.query = pos; pos += (long)m.query.size(); }
    if (m.hasFrag) { pos++; e.frag = pos; pos += (long)m.frag.size(); }
    (void)s;
    return e;
}

struct ParseCfg { uint64_t nCover, nEnum, nEnumIp, nDegen, nRandom; size_t enumLen, enumIpLen; };
static ParseCfg cfg_of(Ctx& c) {
    ParseCfg g;
    bool thorough = c.tier == "thorough";
    g.nCover = gcover_count();
    g.enumLen = (size_t)c.param_int("enum_len", thorough ? 5 : 4);
    g.nEnum = genum_count(dfa_class_reps().size() - 1, g.enumLen);
    g.enumIpLen = (size_t)c.param_int("enum_ip_len", thorough ? 7 : 5);
    g.nEnumIp = genum_count(12, g.enumIpLen) * 3;
    g.nDegen = gdegenerate_count();
    g.nRandom = (uint64_t)c.param_int("random", thorough ? 30000000 : 1500000);
    if (c.param_int("cover_only", 0)) { g.nEnum = g.nEnumIp = g.nDegen = g.nRandom = 0; }
    return g;
}
static uint64_t parse_ncases(Ctx& c) { ParseCfg g = cfg_of(c); return g.nCover + g.nEnum + g.nEnumIp + g.nDegen + g.nRandom; }

static Str case_string(Ctx& c, uint64_t idx, const char** gen) {
    static ParseCfg g; static bool init = false; if (!init) { g = cfg_of(c); init = true; }
    if (idx < g.nCover) { *gen = "cover"; return gcover_case(idx, c.rng); }
    idx -= g.nCover;
    if (idx < g.nEnum) {
        *gen = "enum"; Str reps = dfa_class_reps().substr(1);
        Str s = genum_case(idx, reps, g.enumLen);
        if (c.rng.coin()) for (auto& ch : s) ch = (char)dfa_random_member_of_class_of((unsigned char)ch, c.rng);
        return s;
    }
    idx -= g.nEnum;
    if (idx < g.nEnumIp) {
        *gen = "enum-ip"; static const char* pre[3] = {"//[", "a://[::", "//[1:2:3:4:5:6:"};
        Str s = genum_case(idx / 3, "01259afF:.]v", g.enumIpLen);
        return Str(pre[idx % 3]) + s;
    }
    idx -= g.nEnumIp;
    if (idx < g.nDegen) { *gen = "degenerate"; return gdegenerate_case(idx); }
    Rng& r = c.rng;
    if (r.chance(1, 400)) { *gen = "bom"; UriGenOpts o; return Str("\xEF\xBB\xBF") + (r.coin() ? gen_uri(r, o) : Str()); }       // UTF-8 byte order mark in front
    switch (r.below(8)) {
    case 0: *gen = "walk"; return gwalk(r, r.chance(1, 50) ? 2000 : 60, false);
    case 1: *gen = "walk-complete"; return gwalk(r, r.chance(1, 50) ? 2000 : 60, true);
    case 2: *gen = "walk-mutated"; return mutate(r, gwalk(r, 60, true), r.range(1, 3));
    case 3: case 4: { *gen = "uri"; UriGenOpts o; o.huge = true; return gen_uri(r, o); }
    case 5: *gen = "uri-mutated"; return mutate(r, gen_uri(r), r.range(1, 3));
    case 6: { *gen = "uri-dots"; UriGenOpts o; o.dotHeavy = true; return gen_uri(r, o); }
    default: { *gen = "iplit"; Str h = r.coin() ? gen_ip6(r) : mutate(r, gen_ip6(r), 1); return Str(r.coin() ? "//[" : "s://u@[") + h + (r.chance(7, 8) ? "]" : "") + (r.coin() ? "/p" : ""); }
    }
}

template <class X> struct ParseMon {
    typedef typename X::Char Char; typedef typename X::Uri Uri;
    Ledger ledger;
    GuardedInput gin;

    void check_failure(Ctx& c, const char* ep, int rc, const Char* first, size_t n, const Char* errPos, bool haveErrPos,
                       const std::vector<uint32_t>& cps, size_t o, const Str& shown) {
        if (rc != URI_ERROR_SYNTAX) { c.violation("C01", fmt("parse/%s/%s/wrong-error-code", X::tag(), ep), fmt("input=\"%s\" rc=%d expected URI_ERROR_SYNTAX", esc(shown).c_str(), rc)); return; }
        if (!haveErrPos) return;
        if (!errPos) { c.violation("C01", fmt("parse/%s/%s/errorpos-null", X::tag(), ep), fmt("input=\"%s\"", esc(shown).c_str())); return; }
        if (errPos < first || errPos > first + n) { c.violation("C01", fmt("parse/%s/%s/errorpos-outside-input", X::tag(), ep), fmt("input=\"%s\" pos=%ld", esc(shown).c_str(), (long)(errPos - first))); return; }
        size_t p = (size_t)(errPos - first);
        if (!errpos_acceptable(cps.data(), cps.size(), o, p))
            c.violation("C01", fmt("parse/%s/%s/errorpos-wrong", X::tag(), ep), fmt("input=\"%s\" reported=%zu oracle=%zu", esc(shown).c_str(), p, o));
    }

    void check_success(Ctx& c, const char* ep, Uri& u, const Char* first, size_t n, const Str& s, bool deep) {
        ObjView v = read_uri<X>(u, first, n);
        Comp m = split(s); bool mabs; StrVec msegs; path_to_segments(m.path, m.hasAuth, &mabs, &msegs);
        Str where = fmt("parse/%s/%s", X::tag(), ep);
        bool malformed = !v.malformed.empty();
        if (malformed) c.violation("C02", where + "/malformed", fmt("input=\"%s\": %s", esc(s).c_str(), v.malformed.c_str()));
        if (malformed && v.malformed.find("does not terminate") != Str::npos) return;      // recomposing a cyclic list would not return
        // C02 verdicts (first one wins); the C04 clause below is judged on the text alone, whatever C02 found: "converting the
        // parsed URI back to text yields the input" is violated end to end also when the parser stored the wrong thing
        [&]() {
        if (malformed) return;
        Str d = comp_diff(v.c, m);
        if (!d.empty()) { c.violation("C02", where + "/component/" + d, fmt("input=\"%s\" library=%s model=%s", esc(s).c_str(), v.c.describe().c_str(), m.describe().c_str())); return; }
        if (v.abs != mabs) { c.violation("C02", where + "/absolutePath", fmt("input=\"%s\" flag=%d expected=%d", esc(s).c_str(), (int)v.abs, (int)mabs)); return; }
        if (v.segs != msegs) { c.violation("C02", where + "/segments", fmt("input=\"%s\" library has %zu segment(s), grammar %zu", esc(s).c_str(), v.segs.size(), msegs.size())); return; }
        if (v.owner) { c.violation("C02", where + "/owner-set", fmt("input=\"%s\"", esc(s).c_str())); return; }
        if (m.hostKind == HK_FUTURE && (v.oFuture.first != v.oHost.first || v.oFuture.after != v.oHost.after)) { c.violation("C02", where + "/ipfuture-range", fmt("input=\"%s\"", esc(s).c_str())); return; }
        // exact sub-ranges
        ExpOff e = expected_offsets(s, m, mabs, msegs);
        auto chk = [&](const char* name, const ObjView::Off& o, long exp, size_t len) {
            if (exp < 0) return;
            // a non-empty component stored somewhere else than in the input: not "inside the input" (C03), and not the sub-range the grammar assigns (C02)
            if (o.first == -2) { if (len != 0) { c.violation("C03", where + "/range-outside-input/" + name, fmt("input=\"%s\"", esc(s).c_str())); c.violation("C02", where + "/offset/" + name + "-outside-input", fmt("input=\"%s\"", esc(s).c_str())); } return; }
            if (o.first != exp || o.after != exp + (long)len) c.violation("C02", where + "/offset/" + name, fmt("input=\"%s\" range=[%ld,%ld) expected=[%ld,%ld)", esc(s).c_str(), o.first, o.after, exp, exp + (long)len));
        };
        chk("scheme", v.oScheme, e.scheme, m.scheme.size()); chk("userInfo", v.oUser, e.user, m.user.size()); chk("host", v.oHost, e.host, m.host.size());
        chk("port", v.oPort, e.port, m.port.size()); chk("query", v.oQuery, e.query, m.query.size()); chk("fragment", v.oFrag, e.frag, m.frag.size());
        for (size_t i = 0; i < msegs.size() && i < v.oSegs.size(); i++) chk("segment", v.oSegs[i], e.segs[i], msegs[i].size());
        }();
        // C04: recomposition
        c.attribute("C04");
        Str out; bool lossy = false; int rc = to_string<X>(u, &out, &lossy);
        c.evaluations++;
        Str expect = recompose(m);
        if (rc != URI_SUCCESS) { c.violation("C04", where + "/tostring-failed", fmt("input=\"%s\" rc=%d", esc(s).c_str(), rc)); return; }
        if (out != expect) { c.violation("C04", where + "/text-differs", fmt("input=\"%s\" output=\"%s\" expected=\"%s\"", esc(s).c_str(), esc(out).c_str(), esc(expect).c_str())); return; }
        if (m.hostKind != HK_IP6 && out != s) { c.violation("C04", where + "/text-not-identical", fmt("input=\"%s\" output=\"%s\"", esc(s).c_str(), esc(out).c_str())); return; }
        if (deep) {
            // parse the output again: must be equal to the first
            typename X::S w = widen<X>(out); Uri u2; const Char* ep2 = nullptr; int rc2;
            { LibScope ls; rc2 = X::ParseSingleUriEx(&u2, w.data(), w.data() + w.size(), &ep2); }
            c.evaluations++;
            if (rc2 != URI_SUCCESS) { c.violation("C04", where + "/reparse-failed", fmt("input=\"%s\" output=\"%s\" rc=%d", esc(s).c_str(), esc(out).c_str(), rc2)); return; }
            int eq; { LibScope ls; eq = X::EqualsUri(&u, &u2); }
            if (!eq) c.violation("C04", where + "/reparse-not-equal", fmt("input=\"%s\" output=\"%s\"", esc(s).c_str(), esc(out).c_str()));
            // owned copy recomposes identically
            int rc3; { LibScope ls; rc3 = X::MakeOwner(&u2); }
            if (rc3 == URI_SUCCESS) {
                Str out2; int rc4 = to_string<X>(u2, &out2);
                if (rc4 != URI_SUCCESS || out2 != expect) c.violation("C04", where + "/owned-text-differs", fmt("input=\"%s\" owned=\"%s\" expected=\"%s\"", esc(s).c_str(), esc(out2).c_str(), esc(expect).c_str()));
            }
            { LibScope ls; X::FreeUriMembers(&u2); }
        }
    }

    void run(Ctx& c, const Str& s, const char* gen, bool deep) {
        // code points as this character type sees them; W: occasionally inject out-of-range code points
        std::vector<uint32_t> cps(s.size()); for (size_t i = 0; i < s.size(); i++) cps[i] = (unsigned char)s[i];
        typename X::S w = widen<X>(s);
        bool oor = false;
        if (sizeof(Char) > 1 && !s.empty() && c.rng.chance(1, 8)) {
            size_t p = c.rng.below((uint32_t)s.size()); uint32_t base = (unsigned char)s[p]; uint32_t v;
            switch (c.rng.below(6)) { case 0: v = 0x100u | base; break; case 1: v = 0x10000u | base; break; case 2: v = 0x80000000u | base; break; case 3: v = 0xFFFFFF00u | base; break;
                case 4: p = 0; v = 0xFEFFu; break;                 // a byte order mark in front: not part of any URI, on no entry point
                default: { static const uint32_t U[] = {0x00E9u + 0x100u, 0x2028u, 0x3002u, 0xFF0Fu, 0xFF1Au, 0x0660u, 0x212Au}; v = U[c.rng.below(7)]; } break; }   // letters, digits, dots, slashes and colons of other scripts
            cps[p] = v; w[p] = (Char)v; oor = true; c.count("w_out_of_range_cases");
        }
        size_t o = 0; bool acc = dfa_uriref(cps.data(), cps.size(), &o);
        bool hasNul = s.find('\0') != Str::npos;
        Str shown = oor ? s + fmt(" [one code point out of range: 0x%x]", cps[0] > 255 ? cps[0] : 0) : s;
        c.count(acc ? "accepted" : "rejected");
        if (acc && !oor) c.count(Str("accepted_hostkind_") + std::to_string(split(s).hostKind));
        c.note(fmt("%s parse %s \"%s\"", X::tag(), gen, esc(s.substr(0, 200)).c_str()));

        const size_t n = w.size();
        // guarded copies: one without terminator (explicit range), one with (NUL-terminated entry points)
        for (int ep = 0; ep < 8; ep++) {
            bool nulTerm = (ep == 1 || ep == 2 || ep == 5);
            if (nulTerm && hasNul) continue;
            typename X::S buf = w; if (nulTerm) buf.push_back((Char)0);
            if (ep == 7) {
                // the same range inside a longer buffer: what follows it is readable and hostile (continues a triplet, a port, an octet,
                // closes a bracket ...). The verdict must be the automaton's verdict on the range alone, to the character.
                static const char* const TAILS[] = {"%", "%41", "%4", "5", "55", "]", ":", ".", "/", "a", "@", "[", "::1]", "25", "?", "#", "0.0.1", ":80", "f", "v"};
                const char* tl = TAILS[(c.case_index / 3 + (uint64_t)s.size()) % (sizeof TAILS / sizeof TAILS[0])];
                for (const char* q = tl; *q; q++) buf.push_back(X::wid((unsigned char)*q));
            }
            gin.set(buf.data(), buf.size() * sizeof(Char), (int)(c.case_index & 1) && !nulTerm ? 1 : 0);
            const Char* first = (const Char*)gin.ptr; const Char* afterLast = first + n;
            Uri u; memset(&u, 0xCD, sizeof u);
            typename X::State st; memset(&st, 0xCD, sizeof st); st.uri = &u;
            const Char* errPos = (const Char*)(uintptr_t)0x1; bool haveErr = true; int rc; const char* name;
            UriMemoryManager* mm = nullptr;
            LibcWatch& lw = libc_watch(); lw.reset(); lw.clear_live();
            size_t live_before = ledger.outstanding();
            c.stage((uint64_t)ep + 1);
            {
                LibScope ls;
                switch (ep) {
                case 0: name = "ParseUriEx"; rc = X::ParseUriEx(&st, first, afterLast); errPos = st.errorPos; break;
                case 1: name = "ParseUri"; rc = X::ParseUri(&st, first); errPos = st.errorPos; break;
                case 2: name = "ParseSingleUri"; rc = X::ParseSingleUri(&u, first, &errPos); break;
                case 3: name = "ParseSingleUriEx"; rc = X::ParseSingleUriEx(&u, first, afterLast, &errPos); break;
                case 4: name = "ParseSingleUriExMm"; mm = ledger.mgr();
                    // now and then the manager refuses one request: the call may then fail with the out-of-memory code (C14 judges that), but
                    // if it reports success, what it hands back is judged like any other successful parse
                    if ((c.case_index % 5) == 1) ledger.arm((long)(1 + (c.case_index / 5) % 6), false);
                    rc = X::ParseSingleUriExMm(&u, first, afterLast, &errPos, mm); break;
                case 5: name = "ParseSingleUriEx(afterLast=NULL)"; rc = X::ParseSingleUriEx(&u, first, nullptr, &errPos); break;
                case 6: name = "ParseSingleUriEx(errorPos=NULL)"; rc = X::ParseSingleUriEx(&u, first, afterLast, nullptr); haveErr = false; break;
                default: name = "ParseSingleUriEx(range-inside-longer-buffer)"; rc = X::ParseSingleUriEx(&u, first, afterLast, &errPos); break;
                }
            }
            c.evaluations++;
            bool faulted = false;
            if (mm) { faulted = ledger.failed > 0; ledger.fail_at = 0; ledger.fail_from = false; ledger.failed = 0; }
            if (faulted) { c.count("parse_with_refused_request");
                if (rc != URI_SUCCESS) {       // out of memory (or whatever C14 makes of it): just the caller's cleanup, then on to the next entry point
                    { LibScope ls; X::FreeUriMembersMm(&u, mm); } ledger.release_all(); ledger.bad_free = 0; ledger.bad_free_note.clear(); continue; }
                c.count("parse_succeeded_despite_refused_request"); }
            if (!gin.unchanged()) c.violation("C03", fmt("parse/%s/%s/input-modified", X::tag(), name), fmt("input=\"%s\"", esc(shown).c_str()));
            if ((rc == URI_SUCCESS) != acc) {
                c.violation("C01", fmt("parse/%s/%s/%s", X::tag(), name, acc ? "rejects-valid" : "accepts-invalid"), fmt("input=\"%s\" rc=%d oracle_errpos=%zu", esc(shown).c_str(), rc, o));
                LibScope ls; if (mm) X::FreeUriMembersMm(&u, mm); else X::FreeUriMembers(&u);
                if (mm) ledger.release_all();
                continue;
            }
            if (rc != URI_SUCCESS) {
                if (ep <= 1 && st.errorCode != rc) c.violation("C01", fmt("parse/%s/%s/state-errorcode", X::tag(), name), fmt("input=\"%s\" rc=%d state.errorCode=%d", esc(shown).c_str(), rc, st.errorCode));
                check_failure(c, name, rc, first, n, errPos, haveErr, cps, o, shown);
                // C03: nothing remains allocated; the output may be freed repeatedly
                if (mm && ledger.outstanding() != live_before) { c.violation("C03", fmt("parse/%s/%s/leak-after-failure", X::tag(), name), fmt("input=\"%s\": %s", esc(shown).c_str(), ledger.describe_live().c_str())); }
                if (!mm && lw.available && !lw.live.empty()) c.violation("C03", fmt("parse/%s/%s/leak-after-failure", X::tag(), name), fmt("input=\"%s\": %zu libc block(s) outstanding", esc(shown).c_str(), lw.live.size()));
                int frees = 1 + (int)(c.case_index % 3);
                for (int k = 0; k < frees; k++) { LibScope ls; if (mm) X::FreeUriMembersMm(&u, mm); else X::FreeUriMembers(&u); }
                if (mm && (ledger.bad_free || ledger.outstanding() != live_before)) { c.violation("C03", fmt("parse/%s/%s/free-after-failure", X::tag(), name), fmt("input=\"%s\": bad_free=%llu %s", esc(shown).c_str(), (unsigned long long)ledger.bad_free, ledger.bad_free_note.c_str())); ledger.bad_free = 0; ledger.bad_free_note.clear(); ledger.release_all(); }
                if (!mm && lw.available && lw.bad_free) c.violation("C03", fmt("parse/%s/%s/free-after-failure", X::tag(), name), fmt("input=\"%s\": libc free of unknown pointer", esc(shown).c_str()));
                continue;
            }
            check_success(c, name, u, first, n, s, deep && ep == 3);
            c.attribute("C03");
            { LibScope ls; if (mm) X::FreeUriMembersMm(&u, mm); else X::FreeUriMembers(&u); }
            if (mm && ledger.outstanding() != live_before) { c.violation("C13", fmt("parse/%s/%s/leak-after-free", X::tag(), name), fmt("input=\"%s\": %s", esc(shown).c_str(), ledger.describe_live().c_str())); ledger.release_all(); }
            if (!mm && lw.available && !lw.live.empty()) { c.violation("C13", fmt("parse/%s/%s/leak-after-free", X::tag(), name), fmt("input=\"%s\": %zu libc block(s) outstanding", esc(shown).c_str(), lw.live.size())); }
            { LibScope ls; if (mm) X::FreeUriMembersMm(&u, mm); else X::FreeUriMembers(&u); }   // second free: harmless
            if (mm && ledger.bad_free) { c.violation("C13", fmt("parse/%s/%s/double-free", X::tag(), name), ledger.bad_free_note); ledger.bad_free = 0; ledger.bad_free_note.clear(); }
        }
    }
};

static ParseMon<ApiA>* monA; static ParseMon<ApiW>* monW;
static std::set<int>* states_seen;

static void parse_case(Ctx& c, uint64_t idx) {
    if (!monA) { monA = new ParseMon<ApiA>(); monW = new ParseMon<ApiW>(); states_seen = new std::set<int>(); }
    const char* gen = "?";
    Str s = case_string(c, idx, &gen);
    c.count(Str("gen_") + gen);
    // model self-check against an oracle nobody here wrote: inet_pton on accepted IP literals
    size_t o; bool acc = dfa_uriref(s, &o);
    if (acc) {
        Comp m = split(s);
        if (m.hostKind == HK_IP6) { unsigned char b[16]; Str h = m.host; if (inet_pton(AF_INET6, h.c_str(), b) != 1 || m.ip.size() != 16 || memcmp(b, m.ip.data(), 16) != 0) c.count("oracle_selfcheck_fail"); else c.count("oracle_selfcheck_inet_pton_ok"); }
        if (m.hostKind == HK_IP4) { unsigned char b[4]; if (inet_pton(AF_INET, m.host.c_str(), b) != 1 || memcmp(b, m.ip.data(), 4) != 0) c.count("oracle_selfcheck_fail"); else c.count("oracle_selfcheck_inet_pton_ok"); }
        if (recompose(m) != s && m.hostKind != HK_IP6) c.count("oracle_selfcheck_fail");
        c.distinct(hash_str(s));       // non-trivial: accepted, or rejected with a non-zero error position (below)
    } else if (o > 0) c.distinct(hash_str(s));
    states_seen->insert(dfa_uriref_state(s));
    bool deep = (idx % 4) == 0 || s.size() < 12;
    monA->run(c, s, gen, deep);
    monW->run(c, s, gen, deep);
    if (idx % 50000 == 7 || c.samples[gen].size() < 2) c.sample(gen, esc(s.substr(0, 120)));
}
static void parse_finish(Ctx& c) { if (states_seen) { for (int st : *states_seen) c.count(fmt("dfa_state_%d", st)); } }

static void parse_fuzz(Ctx& c, const unsigned char* d, size_t n) {
    if (!monA) { monA = new ParseMon<ApiA>(); monW = new ParseMon<ApiW>(); states_seen = new std::set<int>(); }
    if (n > 600) n = 600;
    Str s((const char*)d, n); c.distinct(hash_str(s));
    monA->run(c, s, "fuzz", true); monW->run(c, s, "fuzz", true);
}
static Monitor mon = {"parse", "C01 C02 C04 (+C03 single range): all parse entry points, A and W, against the RFC automaton and splitter", "C03", parse_ncases, parse_case, parse_finish, parse_fuzz};
VF_REGISTER(mon);

} // namespace
