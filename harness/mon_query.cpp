// Monitor "query": C17 -- compose/dissect round trip, legal query characters, chars-required sufficient,
// every capacity, INT_MAX guards; all arrangements of "&", "=" and a letter for the splitter.
#include "vf_api.hpp"
#include "vf_model.hpp"
#include "vf_mem.hpp"
#include "vf_gen.hpp"
#include <climits>

using namespace vf;
namespace {

static const char SPLIT_ALPHA[] = "&=a%";
static uint64_t nsplit(Ctx& c) { return genum_count(4, (size_t)c.param_int("split_len", c.tier == "thorough" ? 9 : 7)); }
static uint64_t nhuge(Ctx& c) { return (uint64_t)c.param_int("huge", 2); }
static uint64_t nmulti(Ctx& c) { return (uint64_t)c.param_int("multi", 72); }     // 36 variants x {char, wchar_t}
static uint64_t ncases(Ctx& c) { return nsplit(c) + nhuge(c) + 255 * 4 + nmulti(c) + (uint64_t)c.param_int("random", c.tier == "thorough" ? 3000000 : 60000); }

template <class X> struct Q {
    typedef typename X::Char Char; typedef typename X::QList QList;
    OutBuf ob; Ledger led;

    static bool same_items(const QItems& a, const QItems& b) {
        if (a.size() != b.size()) return false;
        for (size_t i = 0; i < a.size(); i++) if (a[i].key != b[i].key || a[i].hasValue != b[i].hasValue || (a[i].hasValue && a[i].value != b[i].value)) return false;
        return true;
    }
    static Str show(const QItems& L) { Str s = "["; for (auto& it : L) { s += "(\"" + esc(it.key) + "\","; s += it.hasValue ? "\"" + esc(it.value) + "\"" : Str("NULL"); s += ")"; } return s + "]"; }
    static QItems read_list(const QList* l, int limit = 100000) { QItems v; for (; l && limit--; l = l->next) { QItem it; it.key = narrow<X>(l->key, l->key + xstrlen<X>(l->key)); it.hasValue = l->value != nullptr; if (l->value) it.value = narrow<X>(l->value, l->value + xstrlen<X>(l->value)); v.push_back(it); } return v; }

    // dissect an arbitrary query string and compare with the model
    void dissect_check(Ctx& c, const Str& q, int plus, int br, int variant) {
        typename X::S w = widen<X>(q);
        static GuardedInput gin; gin.set(w.data(), w.size() * sizeof(Char), (int)(c.case_index & 1));
        const Char* first = (const Char*)gin.ptr;
        QList* list = nullptr; int count = -3; int rc; UriMemoryManager* mm = nullptr;
        bool noCount = (c.case_index % 11) == 4; int* cp = noCount ? nullptr : &count;       // the item count is optional
        LibcWatch& lw = libc_watch(); lw.reset();
        {
            LibScope ls;
            if (variant == 0) { rc = X::DissectQueryMalloc(&list, cp, first, first + w.size()); plus = 1; br = 3; }
            else if (variant == 1) rc = X::DissectQueryMallocEx(&list, cp, first, first + w.size(), plus, (UriBreakConversion)br);
            else { mm = led.mgr(); rc = X::DissectQueryMallocExMm(&list, cp, first, first + w.size(), plus, (UriBreakConversion)br, mm); }
        }
        c.evaluations++;
        Str what = fmt("dissect(\"%s\", plusToSpace=%d, breakConversion=%d)", esc(q).c_str(), plus, br);
        if (mm && lw.available && lw.allocs) c.violation("C13", fmt("query/%s/libc-allocation-with-custom-manager", X::tag()), what);
        if (!gin.unchanged()) c.violation("C17", fmt("query/%s/dissect-modified-input", X::tag()), what);
        if (rc != URI_SUCCESS) { c.violation("C17", fmt("query/%s/dissect-failed", X::tag()), what + fmt(" rc=%d", rc)); return; }
        QItems got = read_list(list);
        QItems model = m_dissect(q, plus, br);
        // decoded NULs cut C strings short: compare up to the first NUL
        for (auto& it : model) { size_t z = it.key.find('\0'); if (z != Str::npos) it.key.resize(z); z = it.value.find('\0'); if (z != Str::npos) it.value.resize(z); }
        bool literalBreak = (q.find('\r') != Str::npos || q.find('\n') != Str::npos) && br != 3;
        if (!noCount && count != (int)got.size()) c.violation("C17", fmt("query/%s/item-count-wrong", X::tag()), what + fmt(" itemCount=%d list-length=%zu", count, got.size()));
        if (!literalBreak && !same_items(got, model)) c.violation("C17", fmt("query/%s/dissect-differs-from-model", X::tag()), what + " library=" + show(got) + " model=" + show(model));
        { LibScope ls; if (mm) X::FreeQueryListMm(list, mm); else X::FreeQueryList(list); }
        if (mm) { if (led.outstanding()) { c.violation("C13", fmt("query/%s/leak-after-free-query-list", X::tag()), what + " " + led.describe_live()); led.release_all(); } if (led.bad_free) { c.violation("C13", fmt("query/%s/bad-free", X::tag()), what + led.bad_free_note); led.bad_free = 0; led.bad_free_note.clear(); } }
    }

    void compose_check(Ctx& c, const QItems& L, int plus, int nb) {
        std::vector<typename X::S> keys, vals; std::vector<QList> nodes(L.size());
        for (auto& it : L) { keys.push_back(widen<X>(it.key)); vals.push_back(widen<X>(it.value)); }
        for (size_t i = 0; i < nodes.size(); i++) { nodes[i].key = keys[i].c_str(); nodes[i].value = L[i].hasValue ? vals[i].c_str() : nullptr; nodes[i].next = i + 1 < nodes.size() ? &nodes[i + 1] : nullptr; }
        const QList* head = nodes.empty() ? nullptr : nodes.data();
        Str what = fmt("compose(%s, spaceToPlus=%d, normalizeBreaks=%d)", show(L).c_str(), plus, nb);
        if (!head) { int req = -1; int rc; { LibScope ls; rc = X::ComposeQueryCharsRequiredEx(nullptr, &req, plus, nb); } if (rc != URI_ERROR_NULL) c.count("compose_null_list_accepted"); return; }
        Str model = m_compose(L, plus, nb);
        int req = -1, rc;
        { LibScope ls; rc = (plus && nb && (c.case_index & 1)) ? X::ComposeQueryCharsRequired(head, &req) : X::ComposeQueryCharsRequiredEx(head, &req, plus, nb); }
        c.evaluations++;
        if (rc != URI_SUCCESS || req < 0) { c.violation("C17", fmt("query/%s/chars-required-failed", X::tag()), what + fmt(" rc=%d", rc)); return; }
        if ((size_t)req < model.size()) c.violation("C17", fmt("query/%s/chars-required-too-small", X::tag()), what + fmt(" required=%d text-length=%zu", req, model.size()));
        // every capacity 0..required+2 (plus a negative one)
        for (long capi = -3; capi <= (long)req + 2; capi++) {
            long cap = capi == -3 ? (long)INT_MIN : capi == -2 ? -(long)INT_MAX : capi;
            size_t capChars = cap > 0 ? (size_t)cap : 0; int mode = (int)((c.case_index + (uint64_t)cap) & 1);
            Char* dest = (Char*)ob.make(capChars * sizeof(Char), mode, 0x3C);
            int written = -77; int useW = (int)(cap & 1);
            c.stage((uint64_t)(cap + 2));
            { LibScope ls; rc = (plus && nb && (cap % 3 == 0)) ? X::ComposeQuery(dest, head, (int)cap, useW ? &written : nullptr) : X::ComposeQueryEx(dest, head, (int)cap, useW ? &written : nullptr, plus, nb); }
            c.evaluations++;
            Str w2 = what + fmt(" maxChars=%ld required=%d", cap, req);
            long where; if (!ob.canaries_ok(&where)) c.violation("C17", fmt("query/%s/write-outside-maxchars", X::tag()), w2 + fmt(" offset %ld", where));
            if (cap >= (long)req + 1 && rc != URI_SUCCESS) c.violation("C17", fmt("query/%s/required-size-not-sufficient", X::tag()), w2 + fmt(" rc=%d", rc));
            if (cap < (long)model.size() + 1 && rc != URI_ERROR_OUTPUT_TOO_LARGE) c.violation("C17", fmt("query/%s/too-small-capacity-wrong-code", X::tag()), w2 + fmt(" rc=%d", rc));
            if (rc == URI_SUCCESS) {
                size_t len = 0; while (len < capChars && dest[len]) len++;
                if (len >= capChars) { c.violation("C17", fmt("query/%s/unterminated-output", X::tag()), w2); continue; }
                Str got = narrow<X>(dest, dest + len);
                if (useW && written != (int)len + 1) c.violation("C17", fmt("query/%s/chars-written-wrong", X::tag()), w2 + fmt(" charsWritten=%d length=%zu", written, len));
                if (got != model) c.violation("C17", fmt("query/%s/compose-differs-from-model", X::tag()), w2 + fmt(" output=\"%s\" model=\"%s\"", esc(got).c_str(), esc(model).c_str()));
                if (!dfa_query(got)) c.violation("C17", fmt("query/%s/illegal-query-character", X::tag()), w2 + fmt(" output=\"%s\"", esc(got).c_str()));
            } else if (rc != URI_ERROR_OUTPUT_TOO_LARGE) c.violation("C17", fmt("query/%s/unexpected-error", X::tag()), w2 + fmt(" rc=%d", rc));
        }
        // malloc variants + round trip through dissect with matching options
        for (int variant = 0; variant < 3; variant++) {
            Char* out = nullptr; UriMemoryManager* mm = nullptr; int p2 = plus, n2 = nb;
            LibcWatch& lw = libc_watch(); lw.reset();
            { LibScope ls; if (variant == 0) { rc = X::ComposeQueryMalloc(&out, head); p2 = 1; n2 = 1; } else if (variant == 1) rc = X::ComposeQueryMallocEx(&out, head, plus, nb); else { mm = led.mgr(); rc = X::ComposeQueryMallocExMm(&out, head, plus, nb, mm); } }
            c.evaluations++;
            if (mm && lw.available && lw.allocs) c.violation("C13", fmt("query/%s/libc-allocation-with-custom-manager", X::tag()), what);
            if (rc != URI_SUCCESS || !out) { c.violation("C17", fmt("query/%s/compose-malloc-failed", X::tag()), what + fmt(" rc=%d", rc)); continue; }
            size_t len = xstrlen<X>(out); Str got = narrow<X>(out, out + len);
            Str m2 = m_compose(L, p2, n2);
            if (got != m2) c.violation("C17", fmt("query/%s/compose-malloc-differs-from-model", X::tag()), what + fmt(" output=\"%s\" model=\"%s\"", esc(got).c_str(), esc(m2).c_str()));
            // dissect it back
            QList* list = nullptr; int count = -1; int rd;
            { LibScope ls; rd = mm ? X::DissectQueryMallocExMm(&list, &count, out, out + len, p2, URI_BR_DONT_TOUCH, mm) : X::DissectQueryMallocEx(&list, &count, out, out + len, p2, URI_BR_DONT_TOUCH); }
            c.evaluations++;
            if (rd != URI_SUCCESS) c.violation("C17", fmt("query/%s/dissect-of-composed-failed", X::tag()), what);
            else {
                QItems back = read_list(list); QItems expect;
                for (auto& it : L) { if (it.key.empty() && !it.hasValue) continue; QItem e = it; if (n2) { e.key = normalize_breaks_to_crlf(e.key); e.value = normalize_breaks_to_crlf(e.value); } if (!e.hasValue) e.value.clear(); expect.push_back(e); }
                if (!same_items(back, expect)) c.violation("C17", fmt("query/%s/round-trip", X::tag()), what + fmt(" composed=\"%s\" dissected=%s expected=%s", esc(got).c_str(), show(back).c_str(), show(expect).c_str()));
                if (count != (int)back.size()) c.violation("C17", fmt("query/%s/item-count-wrong", X::tag()), what + fmt(" itemCount=%d list-length=%zu", count, back.size()));
                LibScope ls; if (mm) X::FreeQueryListMm(list, mm); else X::FreeQueryList(list);
            }
            { LibScope ls; if (mm) mm->free(mm, out); else free(out); }
            if (mm) { if (led.outstanding()) { c.violation("C13", fmt("query/%s/leak-after-compose-dissect", X::tag()), what + " " + led.describe_live()); led.release_all(); } if (led.bad_free) { c.violation("C13", fmt("query/%s/bad-free", X::tag()), what + led.bad_free_note); led.bad_free = 0; led.bad_free_note.clear(); } }
        }
    }

    // sizes beyond INT_MAX must be refused, not wrapped (UBSan watches the arithmetic)
    void huge_check(Ctx& c, int which) {
        // 200 M and 360 M characters (the latter beyond the per-item guard for factor 6), and the largest lengths the per-item guard lets through
        size_t n = which == 0 ? (size_t)200 * 1000 * 1000 : which == 1 ? (size_t)360 * 1000 * 1000 : which == 2 ? (size_t)INT_MAX / 6 - 1 : which == 3 ? (size_t)INT_MAX / 3 - 1 : which == 4 ? (size_t)INT_MAX / 6 : (size_t)INT_MAX / 3;
        if (sizeof(Char) > 1 && c.tier != "thorough") { c.count("huge_skipped_wide_in_quick"); return; }
        Char* big = (Char*)malloc((n + 1) * sizeof(Char)); if (!big) { c.count("huge_skipped_no_memory"); return; }
        for (size_t i = 0; i < n; i++) big[i] = X::wid('a'); big[n] = 0;
        QList item; item.key = big; item.value = big; item.next = nullptr;
        for (int nb = 0; nb < 2; nb++) {
            int req = -1; int rc; { LibScope ls; rc = X::ComposeQueryCharsRequiredEx(&item, &req, 1, nb); }
            c.evaluations++;
            long long truth = (long long)(nb ? 6 : 3) * 2 * (long long)n + 1;      // the library's own worst-case measure
            Str what = fmt("one item, key = value = %zu x 'a', normalizeBreaks=%d", n, nb);
            if (rc == URI_SUCCESS && truth > INT_MAX) c.violation("C17", fmt("query/%s/size-beyond-int-max-not-refused", X::tag()), what + fmt(" rc=0 charsRequired=%d true worst case=%lld", req, truth));
            if (rc == URI_SUCCESS && req < (int)(2 * n + 1)) c.violation("C17", fmt("query/%s/chars-required-too-small", X::tag()), what + fmt(" required=%d", req));
            c.count(rc == URI_SUCCESS ? "huge_accepted" : "huge_refused");
            Char* out = nullptr; { LibScope ls; rc = X::ComposeQueryMallocEx(&out, &item, 1, nb); }
            c.evaluations++;
            if (rc == URI_SUCCESS) { size_t len = xstrlen<X>(out); if (len != 2 * n + 1) c.violation("C17", fmt("query/%s/huge-compose-wrong-length", X::tag()), what + fmt(" len=%zu", len)); free(out); }
            // measuring a list whose SECOND item has the huge string as key and a short value (separator and '=' come on top of it)
            { static Char k8b[9]; for (int i = 0; i < 8; i++) k8b[i] = X::wid('k'); k8b[8] = 0; static Char v1[2]; v1[0] = X::wid('v'); v1[1] = 0;
              QList second; second.key = big; second.value = v1; second.next = nullptr; QList first; first.key = k8b; first.value = nullptr; first.next = &second;
              int rq = -1; int r4; { LibScope ls; r4 = X::ComposeQueryCharsRequiredEx(&first, &rq, 1, nb); } c.evaluations++;
              long long f = nb ? 6 : 3; long long truth2 = f * 8 + 1 + f * (long long)n + 1 + f * 1; long long len2 = 8 + 1 + (long long)n + 1 + 1;
              Str w4 = fmt("list [(\"kkkkkkkk\",NULL), (huge key of %zu characters, \"v\")], normalizeBreaks=%d: worst-case total %lld", n, nb, truth2);
              if (r4 == URI_SUCCESS && truth2 > INT_MAX) c.violation("C17", fmt("query/%s/size-beyond-int-max-not-refused", X::tag()), w4 + fmt(" rc=0 charsRequired=%d", rq));
              else if (r4 == URI_SUCCESS && (long long)rq < len2) c.violation("C17", fmt("query/%s/chars-required-too-small", X::tag()), w4 + fmt(" required=%d", rq)); }
            // three large operands: what earlier items need, plus key and value of ONE later item, pass 2^32 although each of
            // the three stays below INT_MAX (a sum kept in an unsigned comes back small)
            if ((which == 2 && nb == 1) || (which == 3 && nb == 0)) {
                static const size_t AS[] = {1, 4, 5, 6, 1000, 20000000};
                for (size_t a : AS) {
                    QList second; second.key = big; second.value = big; second.next = nullptr; QList first; first.key = big + (n - a); first.value = nullptr; first.next = &second;
                    int rq = -1; int r5; { LibScope ls; r5 = X::ComposeQueryCharsRequiredEx(&first, &rq, 1, nb); } c.evaluations++;
                    long long f = nb ? 6 : 3; long long truth3 = f * (long long)a + 1 + f * (long long)n + 1 + f * (long long)n;
                    Str w5 = fmt("list [(%zu x 'a', NULL), (%zu x 'a', %zu x 'a')], normalizeBreaks=%d: worst-case total %lld (2^32 %+lld)", a, n, n, nb, truth3, truth3 - 4294967296LL);
                    if (r5 == URI_SUCCESS) c.violation("C17", fmt("query/%s/size-beyond-int-max-not-refused", X::tag()), w5 + fmt(" rc=0 charsRequired=%d", rq));
                    Char* o5 = nullptr; { LibScope ls; r5 = X::ComposeQueryMallocEx(&o5, &first, 1, nb); } c.evaluations++;
                    if (r5 == URI_SUCCESS) { c.violation("C17", fmt("query/%s/size-beyond-int-max-not-refused", X::tag()), w5 + " (ComposeQueryMallocEx succeeded)"); free(o5); }
                    c.count("huge_three_operand_sums");
                }
            }
            // the writer with a small buffer: a short first item, then the huge string as key or as value. The worst-case size of the
            // second item added to what is already written passes INT_MAX: it must be refused, and nothing beyond maxChars touched
            for (int asValue = 0; asValue < 2; asValue++) {
                static Char k8[9]; for (int i = 0; i < 8; i++) k8[i] = X::wid('k'); k8[8] = 0;
                QList second; second.key = asValue ? k8 : big; second.value = asValue ? big : nullptr; second.next = nullptr;
                QList first; first.key = k8; first.value = nullptr; first.next = &second;
                const int cap = 64; Char* dest = (Char*)ob.make((size_t)cap * sizeof(Char), 1, 0x5A); int written = -7; int r3;
                { LibScope ls; r3 = X::ComposeQueryEx(dest, &first, cap, &written, 1, nb); }
                c.evaluations++;
                Str w3 = fmt("list [(\"kkkkkkkk\",NULL), (%s)] with a %zu-character string, maxChars=%d, normalizeBreaks=%d", asValue ? "\"kkkkkkkk\", huge" : "huge, NULL", n, cap, nb);
                long where; if (!ob.canaries_ok(&where)) c.violation("C17", fmt("query/%s/write-outside-maxchars", X::tag()), w3 + fmt(" offset %ld", where));
                if (r3 != URI_ERROR_OUTPUT_TOO_LARGE) c.violation("C17", fmt("query/%s/too-small-capacity-wrong-code", X::tag()), w3 + fmt(" rc=%d", r3));
                c.count("huge_writer_small_buffer");
            }
        }
        free(big);
    }
    // many items sharing one big string: the running total crosses INT_MAX on a key or on a value of a later item while every
    // single item stays far below the per-item guard (worst case per item = [&] + f*keylen + [= + f*valuelen], f = 3 or 6)
    void multi_check(Ctx& c, unsigned variant) {
        const size_t L = (size_t)1 << 20;
        static Char* big = nullptr; static Char smallk[2];
        if (!big) { big = (Char*)malloc((L + 1) * sizeof(Char)); if (!big) { c.count("multi_skipped_no_memory"); return; } for (size_t i = 0; i < L; i++) big[i] = X::wid('a'); big[L] = 0; smallk[0] = X::wid('k'); smallk[1] = 0; }
        int nb = (int)(variant & 1); unsigned shape = (variant >> 1) % 3; unsigned step = (variant / 6) % 6;
        long long f = nb ? 6 : 3;
        const Char* key = shape == 1 ? smallk : big; const Char* value = shape == 2 ? nullptr : big;
        long long klen = shape == 1 ? 1 : (long long)L, vlen = (long long)L;
        long long per = 1 + f * klen + (value ? 1 + f * vlen : 0);
        long long n0 = (long long)INT_MAX / per;                      // about the number of items that still fits
        static const long long delta[6] = {-1, 0, 1, 2, 3, 40}; long long N = n0 + delta[step]; if (step == 5) N = 2 * n0 + 3; if (N < 1) N = 1;
        std::vector<QList> nodes((size_t)N);
        for (size_t i = 0; i < nodes.size(); i++) { nodes[i].key = key; nodes[i].value = value; nodes[i].next = i + 1 < nodes.size() ? &nodes[i + 1] : nullptr; }
        long long truth = 0, textlen = 0;
        for (long long i = 0; i < N; i++) { truth += (i ? 1 : 0) + f * klen + (value ? 1 + f * vlen : 0); textlen += (i ? 1 : 0) + klen + (value ? 1 + vlen : 0); }
        int req = -1; int rc; { LibScope ls; rc = X::ComposeQueryCharsRequiredEx(nodes.data(), &req, 1, nb); }
        c.evaluations++;
        Str what = fmt("%lld items sharing a %zu-character string (key %s, value %s), normalizeBreaks=%d: worst-case total %lld, text length %lld", N, L, shape == 1 ? "\"k\"" : "big", value ? "big" : "NULL", nb, truth, textlen);
        if (rc == URI_SUCCESS && truth > INT_MAX) c.violation("C17", fmt("query/%s/size-beyond-int-max-not-refused", X::tag()), what + fmt(" rc=0 charsRequired=%d", req));
        else if (rc == URI_SUCCESS && (long long)req < textlen) c.violation("C17", fmt("query/%s/chars-required-too-small", X::tag()), what + fmt(" required=%d", req));
        else if (rc != URI_SUCCESS && rc != URI_ERROR_OUTPUT_TOO_LARGE) c.violation("C17", fmt("query/%s/unexpected-error", X::tag()), what + fmt(" rc=%d", rc));
        c.count(rc == URI_SUCCESS ? "multi_accepted" : "multi_refused"); c.count(truth > INT_MAX ? "multi_total_beyond_int_max" : "multi_total_within_int_max");
        // the allocating variant must refuse as well (it would otherwise size its buffer from a wrapped figure)
        if (truth > INT_MAX) { Char* out = nullptr; int r2; { LibScope ls; r2 = X::ComposeQueryMallocEx(&out, nodes.data(), 1, nb); } c.evaluations++;
            if (r2 == URI_SUCCESS) { c.violation("C17", fmt("query/%s/size-beyond-int-max-not-refused", X::tag()), what + " (ComposeQueryMallocEx succeeded)"); free(out); } }
    }
};

static Q<ApiA>* qA; static Q<ApiW>* qW;
static void wide_above_255_list(Ctx& c);
// Dissecting a query whose single key is 2^32 + 3 characters long (char API; one 1 MiB page-cache file mapped behind itself 4097 times:
// address space only, the pages are read but never copied). "Size computations that would exceed INT_MAX are refused rather than
// wrapped": the call has to fail (or ask its manager for 4 GiB, which the manager refuses). The pinned library keeps the length in an
// int -- 3 -- and succeeds with the key "aaa" (independent review, hunt H09-f3; with 2^32 - 1 characters the length is -1 and a byte in
// front of the block is written, which is why that length is not probed). Recorded finding; fast build only.
#include <sys/mman.h>
#include <unistd.h>
static void giant_key_dissect(Ctx& c) {
    const size_t piece = (size_t)1 << 20; const size_t nchars = ((size_t)1 << 32) + 3; const size_t total = (nchars + piece - 1) / piece * piece;
    int fd = memfd_create("vf-giant-key", 0); if (fd < 0 || ftruncate(fd, (off_t)piece) != 0) { if (fd >= 0) close(fd); c.count("giant_key_skipped"); return; }
    { std::vector<char> one(piece, 'a'); if (write(fd, one.data(), piece) != (ssize_t)piece) { close(fd); c.count("giant_key_skipped"); return; } }
    char* base = (char*)mmap(nullptr, total, PROT_NONE, MAP_PRIVATE | MAP_ANONYMOUS | MAP_NORESERVE, -1, 0);
    if (base == MAP_FAILED) { close(fd); c.count("giant_key_skipped"); return; }
    bool ok = true; for (size_t off = 0; off < total && ok; off += piece) ok = mmap(base + off, piece, PROT_READ, MAP_SHARED | MAP_FIXED, fd, 0) != MAP_FAILED;
    if (ok) {
        struct Rec { UriMemoryManager mm; size_t largest = 0; } rec; memset(&rec.mm, 0, sizeof rec.mm); rec.mm.userData = &rec;
        rec.mm.malloc = [](UriMemoryManager* m, size_t n) -> void* { Rec* r = (Rec*)m->userData; if (n > r->largest) r->largest = n; if (n > ((size_t)64 << 20)) { errno = ENOMEM; return nullptr; } return raw_malloc(n ? n : 1); };
        rec.mm.calloc = [](UriMemoryManager* m, size_t a, size_t b) -> void* { Rec* r = (Rec*)m->userData; if (b && a > (size_t)-1 / b) return nullptr; if (a * b > r->largest) r->largest = a * b; if (a * b > ((size_t)64 << 20)) { errno = ENOMEM; return nullptr; } void* p = raw_malloc(a * b ? a * b : 1); if (p) memset(p, 0, a * b); return p; };
        rec.mm.realloc = [](UriMemoryManager*, void*, size_t) -> void* { return nullptr; };
        rec.mm.reallocarray = [](UriMemoryManager*, void*, size_t, size_t) -> void* { return nullptr; };
        rec.mm.free = [](UriMemoryManager*, void* p) { if (p) raw_free(p); };
        UriQueryListA* list = nullptr; int count = -1; int rc;
        { LibScope ls; rc = uriDissectQueryMallocExMmA(&list, &count, base, base + nchars, URI_FALSE, URI_BR_DONT_TOUCH, &rec.mm); }
        c.evaluations++; c.count("giant_key_dissected");
        size_t klen = (rc == URI_SUCCESS && list && list->key) ? strlen(list->key) : 0;
        Str what = fmt("uriDissectQueryMallocExMmA on one key of %zu characters: rc=%d count=%d, key of %zu characters returned, largest request %zu bytes", nchars, rc, count, klen, rec.largest);
        if (rc == URI_SUCCESS) {
            if (klen == (size_t)(unsigned)nchars) c.violation("C17", "query/A/dissect-key-longer-than-INT_MAX-length-truncated-to-int", what);
            else c.violation("C17", "query/A/dissect-key-longer-than-INT_MAX-otherwise", what);
            LibScope ls; uriFreeQueryListMmA(list, &rec.mm);
        } else c.count("giant_key_refused");
    } else c.count("giant_key_skipped");
    munmap(base, total); close(fd);
}
static void run_case(Ctx& c, uint64_t idx) {
    if (!qA) { qA = new Q<ApiA>(); qW = new Q<ApiW>(); }
    Rng& r = c.rng; uint64_t ns = nsplit(c), nh = nhuge(c);
    if (idx < ns) {
        Str q = genum_case(idx, SPLIT_ALPHA, 16);
        c.note("query dissect \"" + esc(q) + "\""); c.distinct(hash_str(q));
        int plus = (int)(idx & 1), br = (int)((idx >> 1) & 3);
        if (idx % 2) qW->dissect_check(c, q, plus, br, (int)(idx % 3)); else qA->dissect_check(c, q, plus, br, (int)(idx % 3));
        return;
    }
    idx -= ns;
    if (c.case_index >= ns + nh && c.case_index < ns + nh + 255 * 4) {      // every character value as key / value, all option combinations, both character types
        uint64_t i = c.case_index - ns - nh; unsigned b = 1 + (unsigned)(i % 255); int opt = (int)(i / 255); Str ch(1, (char)b);
        QItems L; QItem a; a.key = ch; a.hasValue = true; a.value = ch + ch; L.push_back(a); QItem b2; b2.key = "k" + ch + "k"; b2.hasValue = false; L.push_back(b2); QItem c3; c3.key = "e"; c3.hasValue = true; c3.value = ""; L.push_back(c3);
        c.count("gen_charset"); c.note("query charset " + esc(ch)); c.distinct(hash_str(ch, 777 + (uint64_t)opt));
        qA->compose_check(c, L, opt & 1, opt >> 1); qW->compose_check(c, L, opt & 1, opt >> 1); return;
    }
    if (c.case_index >= ns + nh + 255 * 4 && c.case_index < ns + nh + 255 * 4 + nmulti(c)) {
        uint64_t i = c.case_index - ns - nh - 255 * 4; c.note(fmt("query multi-item INT_MAX variant %llu", (unsigned long long)i)); c.attribute("C17"); c.distinct(99000 + i);
        if (i & 1) qW->multi_check(c, (unsigned)(i >> 1)); else qA->multi_check(c, (unsigned)(i >> 1)); return;
    }
    if (idx == 0 && c.build == "fast") { c.note("query giant key"); c.attribute("C17"); giant_key_dissect(c); }
    if (idx < nh) { c.note("query huge"); c.attribute("C17"); qA->huge_check(c, (int)(idx % 6)); if (c.tier == "thorough" && (idx % 6 == 0 || idx % 6 == 2 || idx % 6 == 4)) qW->huge_check(c, (int)(idx % 6)); c.distinct(idx + 12345); return; }
    // item counts: mostly few; now and then many, half of those at the counts where a fixed-size table, a batch or a counter type would end
    static const int COUNTS[] = {15, 16, 17, 31, 32, 33, 63, 64, 65, 99, 100, 101, 127, 128, 129, 255, 256, 257};
    QItems L; int n = r.chance(1, 40) ? (r.coin() ? r.range(9, 70) : COUNTS[r.below(18)]) : r.range(0, 8);
    // keys and values as web frameworks write them, among the random ones
    static const char* const WK[] = {"ids[]", "a[0]", "user[name]", "user[address][city]", "[]", "k[]", "x[][]", "q", "utf8", "_method", "page", "a.b", "x-y", "a b", "a+b", "100%", "=&", "%5B%5D", "ids%5B%5D", "\xE2\x9C\x93", "redirect_uri", "http://h/p?x=1&y=2#f", "*", "~", "sig"};
    for (int i = 0; i < n; i++) { QItem it; it.key = r.chance(1, 6) ? Str() : gen_string(r, 10); it.hasValue = r.chance(2, 3); if (it.hasValue) it.value = r.chance(1, 6) ? Str() : gen_string(r, 10);
        if (r.chance(1, 8)) it.key = WK[r.below(25)]; if (it.hasValue && r.chance(1, 12)) it.value = WK[r.below(25)];
        if (n <= 8 && r.chance(1, 40)) { size_t len = special_length(r) % 1100; Str x = gen_string(r, len); while (x.size() < len) x += gen_string(r, len - x.size()).empty() ? Str("a") : gen_string(r, len - x.size()); x.resize(len);
            // half of them a token as real queries carry them (digest, session id, base64url): nothing in it needs escaping
            if (r.coin()) { static const char tk[] = "0123456789abcdefABCDEFghijklmnopqrstuvwxyzGHIJKLMNOPQRSTUVWXYZ-._~"; int style = (int)r.below(3); for (auto& ch : x) ch = tk[style == 0 ? r.below(16) : r.below(sizeof tk - 1)]; }
            (r.coin() ? it.key : it.value) = x; if (!it.hasValue) it.value.clear(); }
        L.push_back(it); }
    int plus = (int)r.below(2), nb = (int)r.below(2);
    // UriBool is an int: a caller may hand over any non-zero value for "yes" (flags & 4, -1, ...). Every part of the library has to
    // read it the same way, or the measuring pass and the escaper disagree about the size
    { static const int TRUTHY[] = {2, -1, 0x100, INT_MIN, 4}; if (plus && r.chance(1, 6)) plus = TRUTHY[r.below(5)]; if (nb && r.chance(1, 6)) nb = TRUTHY[r.below(5)]; if (plus > 1 || plus < 0 || nb > 1 || nb < 0) c.count("non_canonical_truthy_options"); }
    Str key; for (auto& it : L) key += it.key + "\x01" + (it.hasValue ? it.value : Str("\x02")) + "\x03";
    c.note("query compose " + esc(key.substr(0, 200))); c.distinct(hash_str(key, (uint64_t)plus * 2 + (uint64_t)nb));
    if (r.coin()) qA->compose_check(c, L, plus, nb); else qW->compose_check(c, L, plus, nb);
    // arbitrary strings through the splitter as well
    Str q = gen_string(r, 30); for (int i = 0; i < 3; i++) if (!q.empty()) q[r.below((uint32_t)q.size())] = "&=&"[i];
    if (r.chance(1, 40)) { q.clear(); int m = COUNTS[r.below(18)]; for (int i = 0; i < m; i++) { if (i) q += '&'; q += gen_string(r, 3); if (r.coin()) { q += '='; q += gen_string(r, 3); } } for (auto& ch : q) if (!ch) ch = 'x'; c.count("dissect_many_items"); }
    if (r.coin()) qA->dissect_check(c, q, plus, (int)r.below(4), (int)r.below(3)); else qW->dissect_check(c, q, plus, (int)r.below(4), (int)r.below(3));
    if (idx % 16 == 9) wide_above_255_list(c);
    if (idx % 3000 == 1) c.sample("list", esc(key.substr(0, 200)));
}
// Query lists with wide characters above U+00FF (wchar_t API): composed through the escaper, which writes such a character as the
// triplet of its low byte -- the list that comes back from dissecting is another one. Recorded finding (same cause as C16's); the
// diagnoser confirms exactly that behaviour, anything else is reported on its own.
static void wide_above_255_list(Ctx& c) {
    typedef ApiW X; typedef wchar_t Char; Rng& r = c.rng;
    static const unsigned HI[] = {0x141, 0x142, 0x20AC, 0x416, 0x4E2D, 0xFFFD, 0x1F600, 0x2500, 0x100, 0x126, 0x13D, 0x22B};
    auto mk = [&]() { std::basic_string<wchar_t> w; int n = (int)r.range(1, 5); for (int i = 0; i < n; i++) w.push_back(r.chance(1, 2) ? (wchar_t)HI[r.below(12)] : (wchar_t)r.range('a', 'z')); bool any = false; for (auto ch : w) any = any || (unsigned)ch > 255; if (!any) w.push_back((wchar_t)HI[r.below(12)]); return w; };
    std::basic_string<wchar_t> k = mk(), v = mk(); bool hasValue = r.coin(); int plus = (int)r.below(2), nb = (int)r.below(2);
    X::QList item; item.key = k.c_str(); item.value = hasValue ? v.c_str() : nullptr; item.next = nullptr;
    int req = -1; int rc; { LibScope ls; rc = X::ComposeQueryCharsRequiredEx(&item, &req, plus, nb); } c.evaluations++; c.count("query_wide_above_255");
    auto show = [](const std::basic_string<wchar_t>& w) { Str o; for (wchar_t ch : w) o += (unsigned)ch > 255 ? fmt("\\u{%X}", (unsigned)ch) : Str(1, (char)ch); return o; };
    Str what = fmt("list [(\"%s\", %s)] spaceToPlus=%d normalizeBreaks=%d", show(k).c_str(), hasValue ? ("\"" + show(v) + "\"").c_str() : "NULL", plus, nb);
    if (rc != URI_SUCCESS || req < 0) { c.violation("C17", "query/W/above-255/chars-required-failed", what + fmt(" rc=%d", rc)); return; }
    std::vector<Char> out((size_t)req + 2, 0); int wr = -1; { LibScope ls; rc = X::ComposeQueryEx(out.data(), &item, req + 1, &wr, plus, nb); }
    if (rc != URI_SUCCESS) { c.violation("C17", "query/W/above-255/required-size-not-sufficient", what + fmt(" rc=%d", rc)); return; }
    size_t len = xstrlen<X>(out.data()); X::QList* back = nullptr; int cnt = -1; { LibScope ls; rc = X::DissectQueryMallocEx(&back, &cnt, out.data(), out.data() + len, plus, URI_BR_DONT_TOUCH); }
    if (rc != URI_SUCCESS || cnt != 1 || !back) { c.violation("C17", "query/W/above-255/round-trip-differs-otherwise", what + fmt(" dissect rc=%d count=%d", rc, cnt)); if (back) { LibScope ls; X::FreeQueryList(back); } return; }
    std::basic_string<wchar_t> gk(back->key), gv(back->value ? back->value : L""); bool gotValue = back->value != nullptr; { LibScope ls; X::FreeQueryList(back); }
    auto low = [](const std::basic_string<wchar_t>& w) { std::basic_string<wchar_t> o; for (wchar_t ch : w) { wchar_t x = (unsigned)ch > 255 ? (wchar_t)((unsigned)ch & 0xFF) : ch; if (!x) break; o.push_back(x); } return o; };
    if (gk == k && gotValue == hasValue && (!hasValue || gv == v)) { c.count("query_wide_above_255_round_trip_ok"); return; }
    if (gk == low(k) && gotValue == hasValue && (!hasValue || gv == low(v))) c.violation("C17", "query/W/character-above-U+00FF-composed-as-its-low-byte", what);
    else c.violation("C17", "query/W/above-255/round-trip-differs-otherwise", what);
}
static void fuzz_one(Ctx& c, const unsigned char* d, size_t n) {
    if (!qA) { qA = new Q<ApiA>(); qW = new Q<ApiW>(); }
    if (n < 1) return; if (n > 200) n = 200; unsigned f = d[0]; Str s((const char*)d + 1, n - 1); for (auto& ch : s) if (!ch) ch = 'x';
    c.distinct(hash_str(s, f));
    int plus = f & 1, nb = (f >> 1) & 1, br = (f >> 2) & 3;
    if (f & 16) qW->dissect_check(c, s, plus, br, (int)((f >> 5) % 3)); else qA->dissect_check(c, s, plus, br, (int)((f >> 5) % 3));
    // the same bytes as a list: items separated by 0x01, key and value by 0x02 (no 0x02 -> NULL value)
    QItems L; size_t a = 0; while (a <= s.size() && L.size() < 8) { size_t e = s.find('\x01', a); Str it = s.substr(a, e == Str::npos ? Str::npos : e - a); QItem q; size_t v = it.find('\x02'); q.key = it.substr(0, v); q.hasValue = v != Str::npos; if (q.hasValue) q.value = it.substr(v + 1); L.push_back(q); if (e == Str::npos) break; a = e + 1; }
    if (f & 16) qW->compose_check(c, L, plus, nb); else qA->compose_check(c, L, plus, nb);
}
static Monitor mon = {"query", "C17: query compose/dissect round trip, capacities, legal characters, INT_MAX guards", "C17", ncases, run_case, nullptr, fuzz_one};
VF_REGISTER(mon);
}
