// Monitor "alloc": C15 -- a manager completed from a malloc/free-only backend against a sequential
// model of the C allocator, with hostile sizes and backend failures; the backend's own view is checked too.
#include "vf_mem.hpp"
#include "vf_gen.hpp"
#include <cerrno>
#include <map>

using namespace vf;
namespace {

static uint64_t ncases(Ctx& c) { return (uint64_t)c.param_int("sequences", c.tier == "thorough" ? 2000000 : 60000); }

struct Backend;
static std::set<Backend*>& backends() { static std::set<Backend*> s; return s; }     // every backend alive in this process
struct Backend {
    uint64_t pad = 0;                   // the manager is deliberately NOT the first member: userData must be used as given
    UriMemoryManager mm;
    std::map<char*, size_t> live;       // backend's own blocks
    uint64_t mallocs = 0, frees = 0, foreign_free = 0, double_free = 0, wrong_manager = 0; Str note;
    // A backend finds its state through the manager it is called with, like any arena allocator does: the library has to call
    // backend->malloc(backend, ...) / backend->free(backend, ...), not hand it the completed wrapper or anything else
    static Backend* self(UriMemoryManager* m, const char* fn) {
        for (Backend* k : backends()) if (m == &k->mm && m->userData == k) return k;
        Backend* k = nullptr;
        for (Backend* q : backends()) if (m->userData == (void*)&q->mm || m->userData == (void*)q) k = q;     // whose wrapper (or what else) was it?
        if (!k) k = *backends().begin();
        k->wrong_manager++; if (k->note.empty()) k->note = fmt("backend %s called with a manager argument that is not the backend itself", fn);
        return k;
    }
    std::set<char*> ever;               // for telling double free from foreign free
    long fail_at = 0; uint64_t calls = 0; uint64_t failed = 0; size_t live_bytes = 0; size_t skew = 0;
    static const size_t LIMIT = (size_t)1 << 20, TOTAL = (size_t)1 << 22;   // refuses single requests above 1 MiB and more than 4 MiB in total
    static void* b_malloc(UriMemoryManager* m, size_t n) {
        Backend* b = self(m, "malloc"); b->calls++;
        if (b->fail_at && (long)b->calls == b->fail_at) { b->failed++; errno = ENOMEM; return nullptr; }
        if (n > LIMIT || b->live_bytes + n > TOTAL) { b->failed++; errno = ENOMEM; return nullptr; }
        char* raw = (char*)raw_malloc((n ? n : 1) + b->skew); if (!raw) return nullptr;
        char* p = raw + b->skew;           // a backend need not hand out 16-aligned blocks (a bump allocator with 8-byte granularity, a length prefix of its own)
        memset(p, 0xC7, n); b->live_bytes += n; b->live[p] = n; b->ever.insert(p); b->mallocs++; return p;
    }
    static void b_free(UriMemoryManager* m, void* q) {
        Backend* b = self(m, "free"); char* p = (char*)q;
        auto it = b->live.find(p);
        if (it == b->live.end()) { if (b->ever.count(p)) b->double_free++; else b->foreign_free++; if (b->note.empty()) b->note = fmt("backend free(%p): %s", q, b->ever.count(p) ? "already released" : "never returned by backend malloc"); return; }
        memset(p, 0xDD, it->second); b->live_bytes -= it->second; b->live.erase(it); b->frees++; raw_free(p - b->skew);
    }
    // a backend may bring more than the two required functions (the library is free to use them or not -- the unchanged one does not);
    // they follow the C conventions exactly and keep the same books
    static void* b_realloc(UriMemoryManager* m, void* q, size_t n) {
        Backend* b = self(m, "realloc"); b->extra_calls++;
        if (!q) return b_malloc(m, n);
        if (n == 0) { b_free(m, q); return nullptr; }
        auto it = b->live.find((char*)q);
        if (it == b->live.end()) { if (b->ever.count((char*)q)) b->double_free++; else b->foreign_free++; if (b->note.empty()) b->note = fmt("backend realloc(%p, %zu): %s", q, n, b->ever.count((char*)q) ? "already released" : "never returned by the backend"); return nullptr; }
        size_t old = it->second; void* p = b_malloc(m, n); if (!p) return nullptr;
        memcpy(p, q, old < n ? old : n); b_free(m, q); return p;
    }
    static void* b_calloc(UriMemoryManager* m, size_t a, size_t c) {
        Backend* b = self(m, "calloc"); b->extra_calls++;
        if (a && c > (size_t)-1 / a) { errno = ENOMEM; return nullptr; }
        void* p = b_malloc(m, a * c); if (p) memset(p, 0, a * c); return p;
    }
    uint64_t extra_calls = 0;
    void offer(int extras) { if (extras & 1) mm.realloc = b_realloc; if (extras & 2) mm.calloc = b_calloc; }
    Backend() { memset(&mm, 0, sizeof mm); mm.malloc = b_malloc; mm.free = b_free; mm.userData = this; backends().insert(this); }
    ~Backend() { for (auto& kv : live) raw_free(kv.first - skew); backends().erase(this); }
};

struct Block { size_t size; unsigned char pat; };
static void fill(char* p, size_t n, unsigned char pat) { for (size_t i = 0; i < n; i++) p[i] = (char)(pat + (unsigned char)(i * 31)); }
static long first_bad(const char* p, size_t n, unsigned char pat) { for (size_t i = 0; i < n; i++) if ((unsigned char)p[i] != (unsigned char)(pat + (unsigned char)(i * 31))) return (long)i; return -1; }

static size_t hostile_size(Rng& r) {
    static const size_t S[] = {0, 1, 7, 8, 9, 15, 16, 17, 4095, 4096, 4097, 65536};
    static const size_t H[] = {(size_t)-1 / 2, (size_t)-1 - 7, (size_t)-1 - 8, (size_t)-1 - 6, (size_t)-1 - 1, (size_t)-1, ((size_t)1 << 20) - 8, ((size_t)1 << 20) - 7, (size_t)1 << 20, ((size_t)1 << 31), ((size_t)1 << 32) + 3, (size_t)1 << 63, ((size_t)1 << 32), ((size_t)1 << 32) - 1};
    int k = r.below(20);
    // just above the simple fractions of SIZE_MAX (a size padded by a quarter, a third, a half ... wraps to something small there)
    if (r.chance(1, 12)) { static const unsigned D[] = {5, 4, 3, 2, 8, 16, 10}; static const unsigned N[] = {4, 3, 2, 1, 7, 15, 9}; unsigned i = r.below(7); return (size_t)-1 / D[i] * N[i] + r.below(300); }
    if (k < 12) return S[r.below(sizeof S / sizeof S[0])];
    if (k < 17) return r.below(300);
    return H[r.below(sizeof H / sizeof H[0])];
}

// element-count products that overflow AND wrap to 0 or to a small, perfectly allocatable value (a check made after the multiplication,
// or a zero-size special case placed before the overflow check, goes wrong exactly here)
static bool wrapping_pair(Rng& r, size_t* a, size_t* b) {
    static const size_t W[][2] = {{(size_t)1 << 32, (size_t)1 << 32}, {(size_t)1 << 63, 2}, {(size_t)1 << 62, 4}, {(size_t)1 << 33, (size_t)1 << 31}, {((size_t)1 << 63) + 4, 2}, {((size_t)1 << 32) + 1, (size_t)1 << 32},
                                  {((size_t)1 << 62) + 1, 4}, {(size_t)-1 / 3 + 1, 3}, {((size_t)1 << 60) + 2, 16}, {(size_t)-1 / 2 + 1, 2}};
    if (!r.chance(1, 16)) return false;
    size_t i = r.below(sizeof W / sizeof W[0]); bool sw = r.coin(); *a = W[i][sw ? 1 : 0]; *b = W[i][sw ? 0 : 1]; return true;
}

static void run_case(Ctx& c, uint64_t idx) {
    Rng& r = c.rng;
    Backend be; UriMemoryManager mm; memset(&mm, 0, sizeof mm);
    be.skew = (idx % 4 == 3) ? 8 : 0;      // backend blocks at 16n or at 16n + 8 (still aligned for the size header the wrapper keeps; less would break malloc's own contract)
    if (be.skew) c.count("backend_blocks_not_16_aligned");
    if (idx % 8 == 5 || idx % 8 == 6) { be.offer(idx % 8 == 5 ? 1 : 3); c.count("backend_offers_more_than_malloc_and_free"); }
    int rc0 = uriCompleteMemoryManager(&mm, &be.mm);
    if (rc0 != URI_SUCCESS) { c.violation("C15", "alloc/complete-failed", fmt("rc=%d", rc0)); return; }
    if (idx % 64 == 0) {
        // backends lacking malloc or free are rejected; completed manager passes the library's own self test
        UriMemoryManager bad = be.mm, out; bad.malloc = nullptr; int a = uriCompleteMemoryManager(&out, &bad); bad = be.mm; bad.free = nullptr; int b = uriCompleteMemoryManager(&out, &bad);
        if (a != URI_ERROR_MEMORY_MANAGER_INCOMPLETE || b != URI_ERROR_MEMORY_MANAGER_INCOMPLETE) c.violation("C15", "alloc/incomplete-backend-accepted", fmt("rc(no malloc)=%d rc(no free)=%d", a, b));
        int t = uriTestMemoryManager(&mm); if (t != URI_SUCCESS) c.violation("C15", "alloc/self-test-fails", fmt("rc=%d", t));
        c.evaluations += 3;
    }
    if (idx % 32 == 5) {
        // the same manager object completed a second time from another backend is wired to THAT backend (and to nothing of the first)
        Backend be2; UriMemoryManager mm2 = mm; int rc2 = uriCompleteMemoryManager(&mm2, &be2.mm); c.evaluations++;
        if (rc2 != URI_SUCCESS) c.violation("C15", "alloc/second-completion-failed", fmt("rc=%d", rc2));
        else { uint64_t c1 = be.calls, c2 = be2.calls; void* p = mm2.malloc(&mm2, 24); void* q = p ? mm2.realloc(&mm2, p, 100) : nullptr; if (q) mm2.free(&mm2, q); else if (p) mm2.free(&mm2, p);
            if (be.calls != c1 || be2.calls == c2 || !p) c.violation("C15", "alloc/manager-completed-twice-stays-wired-to-first-backend", fmt("first backend calls +%llu, second +%llu, malloc=%p", (unsigned long long)(be.calls - c1), (unsigned long long)(be2.calls - c2), p));
            if (!be2.live.empty()) c.violation("C15", "alloc/backend-blocks-outstanding", "after completing twice"); }
    }
    std::map<char*, Block> live; Str trace;
    int steps = r.range(5, 200);
    if (r.chance(1, 3)) be.fail_at = (long)be.calls + r.range(1, 40);
    auto overlap = [&](char* p, size_t n) -> bool {
        if (!n) return false;
        auto it = live.upper_bound(p);
        if (it != live.end() && it->first < p + n) return true;
        if (it != live.begin()) { --it; if (it->first + it->second.size > p && it->second.size) return true; }
        return false;
    };
    auto log = [&](const Str& s) { if (trace.size() < 1200) trace += s + "; "; };
    auto check_all = [&](const char* when) {
        for (auto& kv : live) { long b = first_bad(kv.first, kv.second.size, kv.second.pat); if (b >= 0) { c.violation("C15", "alloc/live-block-content-changed", fmt("%s: block %p(%zu) byte %ld; trace: %s", when, (void*)kv.first, kv.second.size, b, trace.c_str())); kv.second.pat = 0; fill(kv.first, kv.second.size, 0); } }
    };
    int recompleteAt = (idx % 16 == 9) ? r.range(1, steps) : -1;
    for (int st = 0; st < steps; st++) {
        if (st == recompleteAt) {
            // in the middle of its life the manager is offered a backend without malloc (or without free): that is refused with the
            // dedicated code, and the manager goes on working with the backend it has -- its live blocks stay usable and releasable
            UriMemoryManager bad = be.mm; if (r.coin()) bad.malloc = nullptr; else bad.free = nullptr;
            int rcb = uriCompleteMemoryManager(&mm, &bad); c.evaluations++; c.count("refused_recompletions");
            if (rcb != URI_ERROR_MEMORY_MANAGER_INCOMPLETE) c.violation("C15", "alloc/incomplete-backend-accepted", fmt("re-completion rc=%d", rcb));
            if (!mm.malloc || !mm.calloc || !mm.realloc || !mm.reallocarray || !mm.free || mm.userData != (void*)&be.mm) { c.violation("C15", "alloc/refused-completion-damaged-the-manager", fmt("trace: %s", trace.c_str())); uriCompleteMemoryManager(&mm, &be.mm); }
        }
        int op = r.below(10); c.stage((uint64_t)st);
        bool haveLive = !live.empty();
        char* victim = nullptr; Block vb{0, 0};
        if (haveLive) { auto it = live.begin(); std::advance(it, r.below((uint32_t)live.size())); victim = it->first; vb = it->second; }
        uint64_t befFail = be.failed;
        errno = 0;
        if ((op <= 2 && live.size() < 32) || (!haveLive && op != 9)) {              // malloc / calloc
            bool isCalloc = r.chance(1, 3);
            size_t a = hostile_size(r), b = isCalloc ? hostile_size(r) : 1;
            if (isCalloc && r.chance(1, 2)) { a = r.below(64); b = r.below(64); }
            if (isCalloc && wrapping_pair(r, &a, &b)) c.count("wrapping_products");
            bool ovf = isCalloc && a && b > (size_t)-1 / a; size_t n = ovf ? 0 : a * b;
            char* p = (char*)(isCalloc ? mm.calloc(&mm, a, b) : mm.malloc(&mm, a));
            int en = errno; c.evaluations++;
            log(isCalloc ? fmt("calloc(%zu,%zu)=%p", a, b, (void*)p) : fmt("malloc(%zu)=%p", a, (void*)p));
            bool mustFail = ovf || n > (size_t)-1 - sizeof(size_t) || be.failed != befFail;
            if (ovf) c.count("overflowing_products");
            if (mustFail) {
                if (p) { c.violation("C15", ovf ? "alloc/overflowing-product-not-refused" : "alloc/backend-failure-returned-block", fmt("trace: %s", trace.c_str())); }
                else if (ovf && en != ENOMEM) c.violation("C15", "alloc/overflow-errno-not-ENOMEM", fmt("errno=%d trace: %s", en, trace.c_str()));
                if (!p) continue;
            }
            if (!p) { c.violation("C15", "alloc/unexpected-null", fmt("trace: %s", trace.c_str())); continue; }
            if (overlap(p, n)) c.violation("C15", "alloc/live-blocks-overlap", fmt("new %p(%zu) trace: %s", (void*)p, n, trace.c_str()));
            if (live.count(p) && n) c.violation("C15", "alloc/live-pointer-returned-twice", trace);
            if (isCalloc) for (size_t i = 0; i < n; i++) if (p[i]) { c.violation("C15", "alloc/calloc-not-zero", fmt("byte %zu trace: %s", i, trace.c_str())); break; }
            Block nb{n, (unsigned char)r.below(256)}; fill(p, n, nb.pat);      // usable over its full size (fence/ASan catches otherwise)
            if (n == 0 && live.count(p)) continue;
            live[p] = nb;
        } else if (op <= 6 && haveLive) {                                         // realloc / reallocarray
            bool arr = r.chance(1, 3);
            size_t a = hostile_size(r), b = arr ? hostile_size(r) : 1;
            if (arr && r.chance(1, 2)) { a = r.below(40); b = r.below(40); }
            if (!arr && r.chance(1, 2)) a = r.below(600);
            if (arr && wrapping_pair(r, &a, &b)) c.count("wrapping_products");
            bool ovf = arr && a && b > (size_t)-1 / a; size_t n = ovf ? 0 : a * b;
            uint64_t befFrees = be.frees;
            char* q = (char*)(arr ? mm.reallocarray(&mm, victim, a, b) : mm.realloc(&mm, victim, a));
            int en = errno; c.evaluations++;
            log(arr ? fmt("reallocarray(%p[%zu],%zu,%zu)=%p", (void*)victim, vb.size, a, b, (void*)q) : fmt("realloc(%p[%zu],%zu)=%p", (void*)victim, vb.size, a, (void*)q));
            if (ovf) {
                c.count("overflowing_products");
                if (q) c.violation("C15", "alloc/overflowing-product-not-refused", trace);
                else { if (en != ENOMEM) c.violation("C15", "alloc/overflow-errno-not-ENOMEM", fmt("errno=%d trace: %s", en, trace.c_str()));
                       if (be.frees != befFrees || first_bad(victim, vb.size, vb.pat) >= 0) c.violation("C15", "alloc/old-block-damaged-by-refused-request", trace); }
                continue;
            }
            if (n == 0) {       // realloc(p,0) / reallocarray(p,0,s) / (p,n,0): releases p, returns NULL
                if (q) c.violation("C15", "alloc/zero-size-realloc-returned-block", trace);
                if (be.frees != befFrees + 1) c.violation("C15", "alloc/zero-size-realloc-did-not-release", trace);
                live.erase(victim); c.count("zero_size_reallocs"); continue;
            }
            if (!q) {
                bool expected = n > (size_t)-1 - sizeof(size_t) || be.failed != befFail;
                if (!expected) c.violation("C15", "alloc/unexpected-null", trace);
                if (be.frees != befFrees || first_bad(victim, vb.size, vb.pat) >= 0 || !be.live.count(victim - sizeof(size_t)))
                    c.violation("C15", "alloc/old-block-damaged-by-failed-realloc", trace);
                c.count("failed_reallocs_old_block_intact"); continue;
            }
            size_t keep = vb.size < n ? vb.size : n;
            if (first_bad(q, keep, vb.pat) >= 0) c.violation("C15", "alloc/realloc-lost-prefix", fmt("prefix %zu trace: %s", keep, trace.c_str()));
            live.erase(victim);
            if (q != victim && overlap(q, n)) c.violation("C15", "alloc/live-blocks-overlap", trace);
            Block nb{n, (unsigned char)r.below(256)}; fill(q, n, nb.pat); live[q] = nb;
        } else if (op == 7) {                                                     // realloc(NULL, n) behaves as malloc
            size_t n = r.below(200);
            char* p = (char*)mm.realloc(&mm, nullptr, n); c.evaluations++; log(fmt("realloc(NULL,%zu)=%p", n, (void*)p));
            if (!p) { if (be.failed == befFail) c.violation("C15", "alloc/realloc-null-ptr-not-malloc", trace); continue; }
            if (overlap(p, n)) c.violation("C15", "alloc/live-blocks-overlap", trace);
            Block nb{n, (unsigned char)r.below(256)}; fill(p, n, nb.pat); if (!(n == 0 && live.count(p))) live[p] = nb;
        } else if (op == 8 && haveLive) {                                         // free
            uint64_t bf = be.frees; mm.free(&mm, victim); c.evaluations++; log(fmt("free(%p)", (void*)victim));
            if (be.frees != bf + 1) c.violation("C15", "alloc/free-did-not-release-backend-block", trace);
            live.erase(victim);
        } else {                                                                  // free(NULL): nothing happens
            uint64_t bf = be.frees, bm = be.mallocs; mm.free(&mm, nullptr); c.evaluations++;
            if (be.frees != bf || be.mallocs != bm || be.foreign_free || be.double_free) c.violation("C15", "alloc/free-null-did-something", trace);
        }
        if (be.wrong_manager) { c.violation("C15", "alloc/backend-called-with-foreign-manager", be.note + " trace: " + trace); be.wrong_manager = 0; be.note.clear(); }
        if (be.foreign_free || be.double_free) { c.violation("C15", be.double_free ? "alloc/backend-block-released-twice" : "alloc/backend-free-of-foreign-pointer", be.note + " trace: " + trace); be.foreign_free = be.double_free = 0; be.note.clear(); }
        if (st % 8 == 7) check_all("periodic");
    }
    check_all("end");
    // the caller frees everything: nothing may stay allocated in the backend
    for (auto& kv : live) mm.free(&mm, kv.first);
    if (!be.live.empty()) c.violation("C15", "alloc/backend-blocks-outstanding-after-free-all", fmt("%zu block(s); trace: %s", be.live.size(), trace.c_str()));
    if (be.wrong_manager) c.violation("C15", "alloc/backend-called-with-foreign-manager", be.note + " trace: " + trace);
    if (be.foreign_free || be.double_free) c.violation("C15", be.double_free ? "alloc/backend-block-released-twice" : "alloc/backend-free-of-foreign-pointer", be.note);
    c.count("backend_failures_injected", be.failed);
    c.distinct(hash_str(trace));
    // uriEmulateCalloc / uriEmulateReallocarray directly on a plain complete manager
    if (idx % 8 == 0) {
        Ledger led; size_t a = hostile_size(r), b = hostile_size(r); bool ovf = a && b > (size_t)-1 / a;
        if (!ovf && a * b > ((size_t)1 << 20)) { a = r.below(100); b = r.below(100); }
        errno = 0; void* p = uriEmulateCalloc(led.mgr(), a, b); int en = errno; c.evaluations++;
        if (ovf && (p || en != ENOMEM)) c.violation("C15", "alloc/emulate-calloc-overflow", fmt("nmemb=%zu size=%zu p=%p errno=%d", a, b, p, en));
        if (!ovf && p) { for (size_t i = 0; i < a * b && i < 4096; i++) if (((char*)p)[i]) { c.violation("C15", "alloc/emulate-calloc-not-zero", fmt("nmemb=%zu size=%zu", a, b)); break; } }
        errno = 0; void* q = uriEmulateReallocarray(led.mgr(), p, a, b); en = errno; c.evaluations++;
        if (ovf && (q || en != ENOMEM)) c.violation("C15", "alloc/emulate-reallocarray-overflow", fmt("nmemb=%zu size=%zu", a, b));
        led.release_all();
    }
    if (idx % 3000 == 1) c.sample("sequence", trace.substr(0, 500));
}
static Monitor mon = {"alloc", "C15: completed memory manager vs sequential allocator model, hostile sizes, backend failures", "C15", ncases, run_case, nullptr};
VF_REGISTER(mon);
}
