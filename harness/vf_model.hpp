// Reference models (oracles), written from RFC 3986 and the property statements.
// All of them work on text (one byte per code point 0..255), never on UriUriA/W.
#ifndef VF_MODEL_HPP
#define VF_MODEL_HPP 1
#include "vf_common.hpp"

namespace vf {

// ---------------------------------------------------------------- M-DFA
// Runs the minimal RFC 3986 URI-reference automaton over code points. Code points
// outside 0..255 have no transition. Returns true iff accepted; *errpos receives the
// index of the first character after which no valid completion exists (the length
// of the input if it is merely incomplete).
bool dfa_uriref(const uint32_t* cp, size_t n, size_t* errpos);
bool dfa_uriref(const Str& s, size_t* errpos);
bool dfa_query(const Str& s);       // the `query` rule
bool dfa_ip4(const Str& s);         // IPv4address
bool dfa_absuri(const Str& s);      // URI (with scheme)
int dfa_uriref_state(const Str& s); // state after reading s (minimal DFA), for coverage evidence
// the error-position rule of C01: is reported position p acceptable for oracle position o in text s?
bool errpos_acceptable(const uint32_t* cp, size_t n, size_t o, size_t p);

// ---------------------------------------------------------------- components
enum HostKind { HK_NONE = 0, HK_REGNAME = 1, HK_IP4 = 2, HK_IP6 = 3, HK_FUTURE = 4 };
struct Comp {
    bool hasScheme = false; Str scheme;
    bool hasAuth = false;
    bool hasUser = false; Str user;
    int hostKind = HK_NONE; Str host;          // text without brackets
    Str ip;                                     // 4 or 16 address bytes for IP4 / IP6
    bool hasPort = false; Str port;
    Str path;                                   // path text exactly as it appears in the URI
    bool hasQuery = false; Str query;
    bool hasFrag = false; Str frag;
    bool operator==(const Comp& o) const;
    bool operator!=(const Comp& o) const { return !(*this == o); }
    Str describe() const;
};
// Component-wise difference, for messages; empty if equal. ip6 hosts are compared by value.
Str comp_diff(const Comp& a, const Comp& b);

Comp split(const Str& s);                       // s must be accepted by M-DFA
Str recompose(const Comp& c);                   // RFC 5.3; IPv6 as eight 4-digit lowercase groups
bool decode_ip4(const Str& t, unsigned char out[4]);
bool decode_ip6(const Str& t, unsigned char out[16]);
Str render_ip6(const unsigned char b[16]);
// grammar view of a path: segment list and absolute flag as the parser must report them
void path_to_segments(const Str& path, bool hasAuth, bool* absolutePath, StrVec* segs);
// inverse, by the recomposition rule
Str segments_to_path(bool hasAuth, bool absolutePath, const StrVec& segs);

// ---------------------------------------------------------------- M-RESOLVE
Str rfc_remove_dot_segments(const Str& path);   // RFC 3986 5.2.4 verbatim
Str remove_dots(const Str& path, bool rooted);  // rootless stays rootless
// returns false if base has no scheme. guard: add the '.' guard segment (C06 last sentence)
bool resolve(const Comp& base, const Comp& ref, bool compat, Comp* out, bool guard = true, Str* rootlessBeforeRemoval = nullptr);   // last: the path dot removal started from, when that path was rootless (else untouched)

// ---------------------------------------------------------------- M-NORM
bool is_unreserved(unsigned c);
Str fixpct(const Str& x, bool lower);
Str dotrem_relative(const Str& path);           // relative-path reference: keep leading ".." run
enum { NM_SCHEME = 1, NM_USER = 2, NM_HOST = 4, NM_PATH = 8, NM_QUERY = 16, NM_FRAG = 32, NM_ALL = 63 };
Comp normalize(const Comp& c, unsigned mask);
// C08 accepts the model text and, in the documented situations, the same with one "." guard segment
// in front (see DESIGN appendix A). Returns the list of acceptable path texts (1 or 2 entries).
StrVec normalize_acceptable_paths(const Comp& in, const Comp& normalized);
bool has_pct_dot_segment(const Str& path);      // a segment that decodes to "." or ".." but is not literally so

// ---------------------------------------------------------------- M-ESC / M-UNESC / M-QUERY
Str m_escape(const Str& s, bool spaceToPlus, bool normalizeBreaks);
// br: 0 LF, 1 CRLF, 2 CR, 3 don't touch (UriBreakConversion values)
Str m_unescape(const Str& s, bool plusToSpace, int br);
struct QItem { Str key; bool hasValue; Str value; };
typedef std::vector<QItem> QItems;
Str m_compose(const QItems& L, bool spaceToPlus, bool normalizeBreaks);
QItems m_dissect(const Str& q, bool plusToSpace, int br);
Str normalize_breaks_to_crlf(const Str& s);     // every CRLF | CR | LF -> CRLF

// ---------------------------------------------------------------- M-FILE
Str m_unix_to_uri(const Str& name);
Str m_win_to_uri(const Str& name);

} // namespace vf
#endif
