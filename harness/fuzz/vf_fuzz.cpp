// libFuzzer entry point (fuzz build only): coverage-guided exploration with a monitor's oracle as the target.
// Environment: VF_FUZZ_MONITOR (monitor name), VF_FUZZ_PROP (property whose violations abort the run),
// VF_FUZZ_OUT (result JSON), VERIF_SEED.
#include "vf_common.hpp"
#include <cstdarg>
#include <csignal>
#include <unistd.h>
#include <time.h>

namespace vf {
static std::vector<Monitor>& monitors() { static std::vector<Monitor> m; return m; }
void register_monitor(const Monitor& m) { monitors().push_back(m); }
const std::vector<Monitor>& all_monitors() { return monitors(); }
Str esc(const Str& s) { Str o; char b[8]; for (unsigned char c : s) { if (c >= 0x20 && c < 0x7f && c != '\\' && c != '"') o.push_back((char)c); else { snprintf(b, sizeof b, "\\x%02x", c); o += b; } } return o; }
Str json_str(const Str& s) { Str o = "\""; char b[8]; for (unsigned char c : s) { if (c == '"') o += "\\\""; else if (c == '\\') o += "\\\\"; else if (c >= 0x20 && c < 0x7f) o.push_back((char)c); else { snprintf(b, sizeof b, "\\u%04x", c); o += b; } } o += "\""; return o; }
Str hexs(const void* p, size_t n) { static const char* d = "0123456789abcdef"; Str o; const unsigned char* b = (const unsigned char*)p; for (size_t i = 0; i < n; i++) { o.push_back(d[b[i] >> 4]); o.push_back(d[b[i] & 15]); } return o; }
Str fmt(const char* f, ...) { char buf[4096]; va_list ap; va_start(ap, f); int n = vsnprintf(buf, sizeof buf, f, ap); va_end(ap); if (n < 0) return ""; if ((size_t)n < sizeof buf) return Str(buf, (size_t)n); Str big((size_t)n + 1, '\0'); va_start(ap, f); vsnprintf(&big[0], big.size(), f, ap); va_end(ap); big.resize((size_t)n); return big; }
void Ctx::violation(const Str& prop, const Str& key, const Str& detail) {
    VioAgg& a = violations[prop + "|" + key]; a.prop = prop; a.key = key; a.count++;
    if (a.wit.size() < 3) a.wit.push_back(Witness{case_index, detail});
}
static Ctx* g_ctx = nullptr;
Ctx* current_ctx() { return g_ctx; }
const char* (*crash_explain)(const void* fault_addr) = nullptr;
}
using namespace vf;

static Ctx g; static const Monitor* g_mon = nullptr; static Str g_prop, g_out; static double g_t0; static std::set<Str> g_known;
static size_t unknown_count() { size_t n = 0; for (auto& kv : g.violations) if ((g_prop.empty() || kv.second.prop == g_prop) && !g_known.count(kv.first)) n += kv.second.count; return n; }
static double now() { struct timespec ts; clock_gettime(CLOCK_MONOTONIC, &ts); return ts.tv_sec + ts.tv_nsec * 1e-9; }
static void dump(int crashed) {
    if (g_out.empty()) return;
    FILE* f = fopen(g_out.c_str(), "w"); if (!f) return;
    fprintf(f, "{\"monitor\":%s,\"build\":\"fuzz\",\"worker\":0,\"nworkers\":1,\"seed\":%llu,\"tier\":\"thorough\",\"cases\":%llu,\"evaluations\":%llu,\"wall_s\":%.3f,\"crash_signal\":%d,\"crash_index\":%llu,\"crash_note\":%s,\"next_index\":0,\"counters\":{",
            json_str(g.monitor).c_str(), (unsigned long long)g.seed, (unsigned long long)g.cases, (unsigned long long)g.evaluations, now() - g_t0, crashed, (unsigned long long)g.case_index, json_str(Str("prop=") + g.cur_prop + " note=" + (g.recorder_note ? g.recorder_note : "")).c_str());
    bool first = true; for (auto& kv : g.counters) { fprintf(f, "%s%s:%llu", first ? "" : ",", json_str(kv.first).c_str(), (unsigned long long)kv.second); first = false; }
    fprintf(f, "},\"samples\":{},\"violations\":["); first = true;
    for (auto& kv : g.violations) { const VioAgg& a = kv.second; fprintf(f, "%s{\"prop\":%s,\"key\":%s,\"count\":%llu,\"witnesses\":[", first ? "" : ",", json_str(a.prop).c_str(), json_str(a.key).c_str(), (unsigned long long)a.count); first = false;
        for (size_t i = 0; i < a.wit.size(); i++) fprintf(f, "%s{\"index\":%llu,\"detail\":%s}", i ? "," : "", (unsigned long long)a.wit[i].index, json_str(a.wit[i].detail).c_str()); fprintf(f, "]}"); }
    fprintf(f, "]}\n"); fclose(f);
    Str bf = g_out + ".bitmap"; FILE* b = fopen(bf.c_str(), "wb"); if (b) { fwrite(g.bitmap.data(), 8, g.bitmap.size(), b); fclose(b); }
}
static void at_exit() { dump(0); }
extern "C" void __asan_on_error(void) { dump(6); }

extern "C" int LLVMFuzzerInitialize(int*, char***) {
    const char* m = getenv("VF_FUZZ_MONITOR"); const char* p = getenv("VF_FUZZ_PROP"); const char* o = getenv("VF_FUZZ_OUT"); const char* s = getenv("VERIF_SEED");
    g.monitor = m ? m : "parse"; g_prop = p ? p : ""; g_out = o ? o : ""; g.seed = s ? strtoull(s, 0, 10) : 1; g.build = "fuzz"; g.tier = "thorough"; g.set_bitmap_bits((size_t)1 << 27);
    if (const char* k = getenv("VF_FUZZ_KNOWN")) { Str all = k; size_t a = 0; while (a < all.size()) { size_t e = all.find('\n', a); if (e == Str::npos) e = all.size(); if (e > a) g_known.insert(all.substr(a, e - a)); a = e + 1; } }
    for (auto& mon : all_monitors()) if (g.monitor == mon.name) g_mon = &mon;
    if (!g_mon || !g_mon->fuzz_one) { fprintf(stderr, "monitor %s has no fuzz hook\n", g.monitor.c_str()); exit(2); }
    static uint64_t rec[4]; static char notebuf[512]; g.recorder = rec; g.recorder_note = notebuf; g.recorder_note_cap = sizeof notebuf;
    g_ctx = &g; g_t0 = now(); atexit(at_exit);
    return 0;
}
extern "C" int LLVMFuzzerTestOneInput(const unsigned char* data, size_t size) {
    g.case_index = g.cases; g.attribute(g_mon->primary_prop);
    g.rng.seed(g.seed, hash_bytes(data, size), 0);
    size_t before = unknown_count();
    g_mon->fuzz_one(g, data, size);
    g.cases++;
    size_t after = unknown_count();
    if (after != before) {
        for (auto& kv : g.violations) if ((g_prop.empty() || kv.second.prop == g_prop) && !g_known.count(kv.first)) fprintf(stderr, "ORACLE-VIOLATION prop=%s key=%s %s\n", kv.second.prop.c_str(), kv.second.key.c_str(), kv.second.wit.empty() ? "" : kv.second.wit[0].detail.c_str());
        dump(0);
        abort();        // libFuzzer stores the input as a crash artifact
    }
    return 0;
}
