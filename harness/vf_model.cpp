#include "vf_model.hpp"
#include "../gen/dfa.h"
#include <arpa/inet.h>

namespace vf {

// ---------------------------------------------------------------- M-DFA
bool dfa_uriref(const uint32_t* cp, size_t n, size_t* errpos) {
    unsigned st = 0;
    for (size_t i = 0; i < n; i++) {
        unsigned cls = cp[i] < 256 ? uriref_class[cp[i]] : 0;
        st = uriref_trans[st][cls];
        if (uriref_dead[st]) { if (errpos) *errpos = i; return false; }
    }
    if (uriref_accept[st]) return true;
    if (errpos) *errpos = n;
    return false;
}
bool dfa_uriref(const Str& s, size_t* errpos) {
    unsigned st = 0;
    for (size_t i = 0; i < s.size(); i++) {
        st = uriref_trans[st][uriref_class[(unsigned char)s[i]]];
        if (uriref_dead[st]) { if (errpos) *errpos = i; return false; }
    }
    if (uriref_accept[st]) return true;
    if (errpos) *errpos = s.size();
    return false;
}
int dfa_uriref_state(const Str& s) {
    unsigned st = 0;
    for (unsigned char c : s) st = uriref_trans[st][uriref_class[c]];
    return (int)st;
}
bool dfa_query(const Str& s) {
    unsigned st = 0;
    for (unsigned char c : s) st = qry_trans[st][qry_class[c]];
    return qry_accept[st];
}
bool dfa_ip4(const Str& s) {
    unsigned st = 0;
    for (unsigned char c : s) st = ip4_trans[st][ip4_class[c]];
    return ip4_accept[st];
}
bool dfa_absuri(const Str& s) {
    unsigned st = 0;
    for (unsigned char c : s) st = absuri_trans[st][absuri_class[c]];
    return absuri_accept[st];
}

// C01: "only when that character lies inside a bracketed IP literal may the position point
// elsewhere within the same literal". The literal is the '[' that opens the host ... first ']' or end.
bool errpos_acceptable(const uint32_t* cp, size_t n, size_t o, size_t p) {
    if (p == o) return true;
    if (p > n) return false;
    // find a '[' that opens a host: directly after "//" or after "//" userinfo "@", before o
    // authority starts after the first "//" that follows an optional scheme.
    size_t i = 0;
    // optional scheme
    size_t k = 0;
    while (k < n && cp[k] != ':' && cp[k] != '/' && cp[k] != '?' && cp[k] != '#') k++;
    if (k < n && cp[k] == ':') i = k + 1;
    if (!(i + 1 < n && cp[i] == '/' && cp[i + 1] == '/')) return false;
    size_t a = i + 2;       // start of authority
    // the literal may follow userinfo '@'
    size_t lb = (size_t)-1;
    for (size_t j = a; j < n && j <= o; j++) {
        if (cp[j] == '[') { lb = j; break; }
        if (cp[j] == '/' || cp[j] == '?' || cp[j] == '#') break;
    }
    if (lb == (size_t)-1 || !(lb < o)) {
        return false;
    }
    size_t rb = n;
    for (size_t j = lb + 1; j < n; j++) if (cp[j] == ']') { rb = j; break; }
    if (o > rb) return false;
    return p >= lb && p <= rb;
}

// ---------------------------------------------------------------- components
bool Comp::operator==(const Comp& o) const { return comp_diff(*this, o).empty(); }
Str Comp::describe() const {
    return fmt("{scheme=%s auth=%d user=%s host(%d)=%s port=%s path=%s query=%s frag=%s}",
               hasScheme ? esc(scheme).c_str() : "<none>", (int)hasAuth, hasUser ? esc(user).c_str() : "<none>", hostKind,
               esc(host).c_str(), hasPort ? esc(port).c_str() : "<none>", esc(path).c_str(),
               hasQuery ? esc(query).c_str() : "<none>", hasFrag ? esc(frag).c_str() : "<none>");
}
Str comp_diff(const Comp& a, const Comp& b) {
    if (a.hasScheme != b.hasScheme || a.scheme != b.scheme) return "scheme";
    if (a.hasAuth != b.hasAuth) return "authority-presence";
    if (a.hasUser != b.hasUser || a.user != b.user) return "userinfo";
    if (a.hostKind != b.hostKind) return "host-kind";
    if (a.hostKind == HK_IP6 || a.hostKind == HK_IP4) { if (a.ip != b.ip) return "host-address"; }
    else if (a.host != b.host) return "host";
    if (a.hasPort != b.hasPort || a.port != b.port) return "port";
    if (a.path != b.path) return "path";
    if (a.hasQuery != b.hasQuery || a.query != b.query) return "query";
    if (a.hasFrag != b.hasFrag || a.frag != b.frag) return "fragment";
    return "";
}

static bool is_alpha(unsigned c) { return (c >= 'A' && c <= 'Z') || (c >= 'a' && c <= 'z'); }
static bool is_digit(unsigned c) { return c >= '0' && c <= '9'; }
static int hexval(unsigned c) {
    if (c >= '0' && c <= '9') return (int)c - '0';
    if (c >= 'a' && c <= 'f') return (int)c - 'a' + 10;
    if (c >= 'A' && c <= 'F') return (int)c - 'A' + 10;
    return -1;
}

bool decode_ip4(const Str& t, unsigned char out[4]) {
    if (!dfa_ip4(t)) return false;
    int k = 0; unsigned v = 0;
    for (unsigned char c : t) { if (c == '.') { out[k++] = (unsigned char)v; v = 0; } else v = v * 10 + (c - '0'); }
    out[k] = (unsigned char)v;
    return k == 3;
}
bool decode_ip6(const Str& t, unsigned char out[16]) {
    // t matched IPv6address; own decoder
    memset(out, 0, 16);
    Str s = t; unsigned char tail4[4]; bool has4 = false;
    size_t lastColon = s.rfind(':');
    if (s.find('.') != Str::npos) {
        if (lastColon == Str::npos) return false;
        if (!decode_ip4(s.substr(lastColon + 1), tail4)) return false;
        has4 = true; s = s.substr(0, lastColon + 1);    // keeps the ':' ; replaced by two groups below
    }
    std::vector<int> left, right; bool seenZip = false;
    size_t i = 0; std::vector<int>* cur = &left;
    // tokenise
    while (i < s.size()) {
        if (s[i] == ':') {
            if (i + 1 < s.size() && s[i + 1] == ':') { if (seenZip) return false; seenZip = true; cur = &right; i += 2; continue; }
            i++; continue;
        }
        unsigned v = 0; int nd = 0;
        while (i < s.size() && hexval((unsigned char)s[i]) >= 0) { v = v * 16 + (unsigned)hexval((unsigned char)s[i]); i++; nd++; }
        if (nd == 0 || nd > 4) return false;
        cur->push_back((int)v);
    }
    if (has4) { cur->push_back((tail4[0] << 8) | tail4[1]); cur->push_back((tail4[2] << 8) | tail4[3]); }
    size_t total = left.size() + right.size();
    if (seenZip) { if (total > 7) return false; } else if (total != 8) return false;
    for (size_t g = 0; g < left.size(); g++) { out[2 * g] = (unsigned char)(left[g] >> 8); out[2 * g + 1] = (unsigned char)(left[g] & 255); }
    for (size_t g = 0; g < right.size(); g++) { size_t pos = 8 - right.size() + g; out[2 * pos] = (unsigned char)(right[g] >> 8); out[2 * pos + 1] = (unsigned char)(right[g] & 255); }
    return true;
}
Str render_ip6(const unsigned char b[16]) {
    static const char* d = "0123456789abcdef"; Str o;
    for (int i = 0; i < 16; i++) { o.push_back(d[b[i] >> 4]); o.push_back(d[b[i] & 15]); if ((i & 1) && i < 15) o.push_back(':'); }
    return o;
}

Comp split(const Str& s) {
    Comp c; Str rest = s;
    size_t h = rest.find('#');
    if (h != Str::npos) { c.hasFrag = true; c.frag = rest.substr(h + 1); rest = rest.substr(0, h); }
    size_t q = rest.find('?');
    if (q != Str::npos) { c.hasQuery = true; c.query = rest.substr(q + 1); rest = rest.substr(0, q); }
    size_t k = rest.find_first_of(":/");
    if (k != Str::npos && k > 0 && rest[k] == ':' && is_alpha((unsigned char)rest[0])) {
        bool ok = true;
        for (size_t i = 1; i < k; i++) { unsigned ch = (unsigned char)rest[i]; if (!(is_alpha(ch) || is_digit(ch) || ch == '+' || ch == '-' || ch == '.')) ok = false; }
        if (ok) { c.hasScheme = true; c.scheme = rest.substr(0, k); rest = rest.substr(k + 1); }
    }
    if (rest.size() >= 2 && rest[0] == '/' && rest[1] == '/') {
        c.hasAuth = true;
        size_t e = rest.find('/', 2);
        Str auth = rest.substr(2, e == Str::npos ? Str::npos : e - 2);
        rest = e == Str::npos ? Str() : rest.substr(e);
        size_t at = auth.find('@');
        if (at != Str::npos) { c.hasUser = true; c.user = auth.substr(0, at); auth = auth.substr(at + 1); }
        if (!auth.empty() && auth[0] == '[') {
            size_t rb = auth.find(']');
            c.host = auth.substr(1, rb - 1);
            Str after = rb == Str::npos ? Str() : auth.substr(rb + 1);
            if (!after.empty() && after[0] == ':') { c.hasPort = true; c.port = after.substr(1); }
            if (!c.host.empty() && (c.host[0] == 'v' || c.host[0] == 'V')) c.hostKind = HK_FUTURE;
            else { c.hostKind = HK_IP6; unsigned char b[16]; if (decode_ip6(c.host, b)) c.ip.assign((char*)b, 16); }
        } else {
            size_t col = auth.find(':');
            if (col != Str::npos) { c.hasPort = true; c.port = auth.substr(col + 1); auth = auth.substr(0, col); }
            c.host = auth;
            unsigned char b[4];
            if (decode_ip4(c.host, b)) { c.hostKind = HK_IP4; c.ip.assign((char*)b, 4); } else c.hostKind = HK_REGNAME;
        }
    }
    c.path = rest;
    return c;
}

Str recompose(const Comp& c) {
    Str o;
    if (c.hasScheme) { o += c.scheme; o += ':'; }
    if (c.hasAuth) {
        o += "//";
        if (c.hasUser) { o += c.user; o += '@'; }
        if (c.hostKind == HK_IP6) { o += '['; o += c.ip.size() == 16 ? render_ip6((const unsigned char*)c.ip.data()) : c.host; o += ']'; }
        else if (c.hostKind == HK_FUTURE) { o += '['; o += c.host; o += ']'; }
        else if (c.hostKind == HK_IP4 && c.ip.size() == 4) { const unsigned char* b = (const unsigned char*)c.ip.data(); o += fmt("%u.%u.%u.%u", b[0], b[1], b[2], b[3]); }
        else o += c.host;
        if (c.hasPort) { o += ':'; o += c.port; }
    }
    o += c.path;
    if (c.hasQuery) { o += '?'; o += c.query; }
    if (c.hasFrag) { o += '#'; o += c.frag; }
    return o;
}

static StrVec split_on(const Str& s, char d) {
    StrVec v; size_t a = 0;
    for (;;) { size_t b = s.find(d, a); if (b == Str::npos) { v.push_back(s.substr(a)); break; } v.push_back(s.substr(a, b - a)); a = b + 1; }
    return v;
}
static Str join(const StrVec& v, char d) { Str o; for (size_t i = 0; i < v.size(); i++) { if (i) o += d; o += v[i]; } return o; }

void path_to_segments(const Str& path, bool hasAuth, bool* absolutePath, StrVec* segs) {
    segs->clear();
    if (hasAuth) {
        *absolutePath = false;
        if (!path.empty()) *segs = split_on(path.substr(1), '/');
        return;
    }
    *absolutePath = !path.empty() && path[0] == '/';
    Str rem = *absolutePath ? path.substr(1) : path;
    if (!rem.empty()) *segs = split_on(rem, '/');
}
Str segments_to_path(bool hasAuth, bool absolutePath, const StrVec& segs) {
    Str o;
    if (absolutePath || (hasAuth && !segs.empty())) o += '/';
    o += join(segs, '/');
    return o;
}

// ---------------------------------------------------------------- M-RESOLVE
static bool starts(const Str& s, const char* p) { size_t n = strlen(p); return s.size() >= n && memcmp(s.data(), p, n) == 0; }
Str rfc_remove_dot_segments(const Str& path) {
    Str in = path, out;
    while (!in.empty()) {
        if (starts(in, "../")) in.erase(0, 3);
        else if (starts(in, "./")) in.erase(0, 2);
        else if (starts(in, "/./")) in.erase(0, 2);
        else if (in == "/.") in = "/";
        else if (starts(in, "/../")) { in.erase(0, 3); size_t p = out.rfind('/'); out.erase(p == Str::npos ? 0 : p); }
        else if (in == "/..") { in = "/"; size_t p = out.rfind('/'); out.erase(p == Str::npos ? 0 : p); }
        else if (in == "." || in == "..") in.clear();
        else { size_t p = in.find('/', in[0] == '/' ? 1 : 0); if (p == Str::npos) { out += in; in.clear(); } else { out += in.substr(0, p); in.erase(0, p); } }
    }
    return out;
}
Str remove_dots(const Str& path, bool rooted) {
    if (rooted || path.empty()) return rfc_remove_dot_segments(path);
    Str r = rfc_remove_dot_segments("/" + path);
    return r.empty() ? r : r.substr(1);
}
static void copy_auth(Comp& t, const Comp& s) {
    t.hasAuth = s.hasAuth; t.hasUser = s.hasUser; t.user = s.user; t.hostKind = s.hostKind; t.host = s.host; t.ip = s.ip; t.hasPort = s.hasPort; t.port = s.port;
}
bool resolve(const Comp& B, const Comp& Rin, bool compat, Comp* out, bool guard, Str* rootlessBeforeRemoval) {
    if (!B.hasScheme) return false;
    Comp R = Rin; Comp T; bool rooted = true;      // was the path rooted before dot removal (decides the form of the guard)
    if (compat && R.hasScheme && R.scheme == B.scheme) { R.hasScheme = false; R.scheme.clear(); }
    if (R.hasScheme) {
        T.hasScheme = true; T.scheme = R.scheme; copy_auth(T, R);
        rooted = R.hasAuth || starts(R.path, "/");
        if (!rooted && rootlessBeforeRemoval) *rootlessBeforeRemoval = R.path;
        T.path = remove_dots(R.path, rooted);
        T.hasQuery = R.hasQuery; T.query = R.query;
    } else {
        if (R.hasAuth) {
            copy_auth(T, R); T.path = remove_dots(R.path, true); T.hasQuery = R.hasQuery; T.query = R.query;
        } else {
            copy_auth(T, B);
            if (R.path.empty()) {
                T.path = B.path; rooted = B.hasAuth || starts(B.path, "/");
                if (R.hasQuery) { T.hasQuery = true; T.query = R.query; } else { T.hasQuery = B.hasQuery; T.query = B.query; }
            } else {
                if (R.path[0] == '/') T.path = remove_dots(R.path, true);
                else {
                    Str merged;
                    if (B.hasAuth && B.path.empty()) merged = "/" + R.path;
                    else { size_t p = B.path.rfind('/'); merged = (p == Str::npos ? Str() : B.path.substr(0, p + 1)) + R.path; }
                    rooted = starts(merged, "/");
                    if (!rooted && rootlessBeforeRemoval) *rootlessBeforeRemoval = merged;
                    T.path = remove_dots(merged, rooted);
                }
                T.hasQuery = R.hasQuery; T.query = R.query;
            }
        }
        T.hasScheme = true; T.scheme = B.scheme;
    }
    T.hasFrag = R.hasFrag; T.frag = R.frag;
    if (guard && !T.hasAuth && starts(T.path, "//")) T.path = (rooted ? "/." : "./") + T.path;
    *out = T;
    return true;
}

// ---------------------------------------------------------------- M-NORM
bool is_unreserved(unsigned c) { return is_alpha(c) || is_digit(c) || c == '-' || c == '.' || c == '_' || c == '~'; }
static char lower_ch(char c) { return (c >= 'A' && c <= 'Z') ? (char)(c + 32) : c; }
static Str lower_str(const Str& s) { Str o = s; for (auto& c : o) c = lower_ch(c); return o; }
Str fixpct(const Str& x, bool lower) {
    static const char* H = "0123456789ABCDEF";
    Str o;
    for (size_t i = 0; i < x.size(); i++) {
        if (x[i] == '%' && i + 2 < x.size() + 0 && hexval((unsigned char)x[i + 1]) >= 0 && hexval((unsigned char)x[i + 2]) >= 0) {
            unsigned v = (unsigned)(hexval((unsigned char)x[i + 1]) * 16 + hexval((unsigned char)x[i + 2]));
            if (is_unreserved(v)) o.push_back(lower ? lower_ch((char)v) : (char)v);
            else { o.push_back('%'); o.push_back(H[v >> 4]); o.push_back(H[v & 15]); }
            i += 2;
        } else o.push_back(lower ? lower_ch(x[i]) : x[i]);
    }
    return o;
}
static StrVec dotrem(const StrVec& segs, bool relative) {
    StrVec st;
    for (size_t i = 0; i < segs.size(); i++) {
        bool last = i + 1 == segs.size();
        const Str& s = segs[i];
        if (s == ".") { if (last) st.push_back(""); }
        else if (s == "..") {
            if (!st.empty() && !(relative && st.back() == "..")) { st.pop_back(); if (last) st.push_back(""); }
            else if (relative) st.push_back("..");
            else { if (last) st.push_back(""); }
        } else st.push_back(s);
    }
    return st;
}
Str dotrem_relative(const Str& path) {
    if (path.empty()) return path;
    return join(dotrem(split_on(path, '/'), true), '/');
}
Comp normalize(const Comp& c, unsigned mask) {
    Comp n = c;
    if ((mask & NM_SCHEME) && c.hasScheme) n.scheme = lower_str(c.scheme);
    if ((mask & NM_USER) && c.hasUser) n.user = fixpct(c.user, false);
    if (mask & NM_HOST) {
        if (c.hostKind == HK_REGNAME) n.host = fixpct(c.host, true);
        else if (c.hostKind == HK_FUTURE) n.host = lower_str(c.host);
    }
    if (mask & NM_PATH) {
        bool rooted = c.hasAuth || starts(c.path, "/");
        bool relative = !rooted && !c.hasScheme;
        Str body = rooted ? (c.path.empty() ? Str() : c.path.substr(1)) : c.path;
        if (!(rooted ? c.path.empty() : body.empty())) {
            StrVec segs = split_on(body, '/');
            for (auto& s : segs) s = fixpct(s, false);
            segs = dotrem(segs, relative);
            n.path = (rooted ? "/" : "") + join(segs, '/');
        }
    }
    if ((mask & NM_QUERY) && c.hasQuery) n.query = fixpct(c.query, false);
    if ((mask & NM_FRAG) && c.hasFrag) n.frag = fixpct(c.frag, false);
    return n;
}
StrVec normalize_acceptable_paths(const Comp& in, const Comp& nm) {
    StrVec v; v.push_back(nm.path);
    bool rooted = in.hasAuth || starts(in.path, "/");
    bool relative = !rooted && !in.hasScheme;
    const Str& m = nm.path;
    bool guardOk = false;
    if (!in.hasAuth && starts(m, "//")) guardOk = true;
    if (!rooted && starts(m, "/")) guardOk = true;
    if (relative) {
        size_t e = m.find('/'); Str first = m.substr(0, e);
        if (first.find(':') != Str::npos) guardOk = true;
        if (m.empty() && !in.path.empty()) guardOk = true;
    }
    if (guardOk) {
        v.push_back(rooted ? "/." + m : "./" + m);
        // a rootless path whose text came to start with "/" may also be written as the absolute path it reads as
        if (!rooted && starts(m, "//")) v.push_back("/." + m);
    }
    return v;
}
bool has_pct_dot_segment(const Str& path) {
    for (const Str& s : split_on(path, '/')) {
        if (s.find('%') == Str::npos) continue;
        Str d = fixpct(s, false);
        if (d == "." || d == "..") return true;
    }
    return false;
}

// ---------------------------------------------------------------- M-ESC / M-UNESC / M-QUERY
Str m_escape(const Str& s, bool plus, bool nb) {
    static const char* H = "0123456789ABCDEF";
    Str o; bool prevCr = false;
    for (unsigned char c : s) {
        if (c == ' ') { if (plus) o += '+'; else o += "%20"; prevCr = false; }
        else if (is_unreserved(c)) { o.push_back((char)c); prevCr = false; }
        else if (c == 0x0a) { if (nb) { if (!prevCr) o += "%0D%0A"; } else o += "%0A"; prevCr = false; }
        else if (c == 0x0d) { if (nb) o += "%0D%0A"; else o += "%0D"; prevCr = true; }
        else { o.push_back('%'); o.push_back(H[c >> 4]); o.push_back(H[c & 15]); prevCr = false; }
    }
    return o;
}
Str m_unescape(const Str& s, bool plus, int br) {
    Str o; bool prevCr = false;
    for (size_t i = 0; i < s.size();) {
        unsigned char c = (unsigned char)s[i];
        if (c == '%' && i + 2 < s.size() + 0 && hexval((unsigned char)s[i + 1]) >= 0 && hexval((unsigned char)s[i + 2]) >= 0) {
            unsigned v = (unsigned)(hexval((unsigned char)s[i + 1]) * 16 + hexval((unsigned char)s[i + 2]));
            if (v == 10) {
                if (br == 3) o.push_back('\n');
                else if (!prevCr) { if (br == 0) o.push_back('\n'); else if (br == 1) o += "\r\n"; else o.push_back('\r'); }
                prevCr = false;
            } else if (v == 13) {
                if (br == 3) o.push_back('\r');
                else if (br == 0) o.push_back('\n'); else if (br == 1) o += "\r\n"; else o.push_back('\r');
                prevCr = true;
            } else { o.push_back((char)v); prevCr = false; }
            i += 3;
        } else if (c == '%') {
            // malformed: the library copies "%" (and one following char if that one is a hex digit) unmodified
            o.push_back('%'); i++; prevCr = false;
        } else if (c == '+' && plus) { o.push_back(' '); i++; prevCr = false; }
        else { o.push_back((char)c); i++; prevCr = false; }
    }
    return o;
}
Str m_compose(const QItems& L, bool plus, bool nb) {
    Str o;
    for (size_t i = 0; i < L.size(); i++) {
        if (i) o += '&';
        o += m_escape(L[i].key, plus, nb);
        if (L[i].hasValue) { o += '='; o += m_escape(L[i].value, plus, nb); }
    }
    return o;
}
QItems m_dissect(const Str& q, bool plus, int br) {
    QItems L;
    if (q.empty()) return L;
    for (const Str& piece : split_on(q, '&')) {
        size_t e = piece.find('=');
        QItem it;
        if (e == Str::npos) { if (piece.empty()) continue; it.key = m_unescape(piece, plus, br); it.hasValue = false; }
        else { it.key = m_unescape(piece.substr(0, e), plus, br); it.hasValue = true; it.value = m_unescape(piece.substr(e + 1), plus, br); }
        L.push_back(it);
    }
    return L;
}
Str normalize_breaks_to_crlf(const Str& s) {
    Str o;
    for (size_t i = 0; i < s.size(); i++) {
        if (s[i] == '\r') { o += "\r\n"; if (i + 1 < s.size() && s[i + 1] == '\n') i++; }
        else if (s[i] == '\n') o += "\r\n";
        else o.push_back(s[i]);
    }
    return o;
}

} // namespace vf
