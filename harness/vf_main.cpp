// Worker process entry point: runs one monitor over its slice of the case space,
// with a flight recorder and crash/abort/hang attribution.
#include "vf_common.hpp"
#include <cstdarg>
#include <csignal>
#include <unistd.h>
#include <fcntl.h>
#include <sys/mman.h>
#include <time.h>
#include <sys/time.h>
#include <locale.h>

namespace vf {

static std::vector<Monitor>& monitors() { static std::vector<Monitor> m; return m; }
void register_monitor(const Monitor& m) { monitors().push_back(m); }
const std::vector<Monitor>& all_monitors() { return monitors(); }

Str esc(const Str& s) {
    Str o; char b[8];
    for (unsigned char c : s) {
        if (c >= 0x20 && c < 0x7f && c != '\\' && c != '"') o.push_back((char)c);
        else { snprintf(b, sizeof b, "\\x%02x", c); o += b; }
    }
    return o;
}
Str json_str(const Str& s) {
    Str o = "\""; char b[8];
    for (unsigned char c : s) {
        if (c == '"') o += "\\\"";
        else if (c == '\\') o += "\\\\";
        else if (c >= 0x20 && c < 0x7f) o.push_back((char)c);
        else { snprintf(b, sizeof b, "\\u%04x", c); o += b; }
    }
    o += "\""; return o;
}
Str hexs(const void* p, size_t n) {
    static const char* d = "0123456789abcdef"; Str o; const unsigned char* b = (const unsigned char*)p;
    for (size_t i = 0; i < n; i++) { o.push_back(d[b[i] >> 4]); o.push_back(d[b[i] & 15]); }
    return o;
}
Str fmt(const char* f, ...) {
    char buf[4096]; va_list ap; va_start(ap, f); int n = vsnprintf(buf, sizeof buf, f, ap); va_end(ap);
    if (n < 0) return "";
    if ((size_t)n < sizeof buf) return Str(buf, (size_t)n);
    Str big((size_t)n + 1, '\0'); va_start(ap, f); vsnprintf(&big[0], big.size(), f, ap); va_end(ap); big.resize((size_t)n); return big;
}

void Ctx::violation(const Str& prop, const Str& key, const Str& detail) {
    VioAgg& a = violations[prop + "|" + key];
    a.prop = prop; a.key = key; a.count++;
    if (a.wit.size() < 3) a.wit.push_back(Witness{case_index, detail});
    if (verbose) fprintf(stderr, "VIOLATION-DETAIL prop=%s key=%s index=%llu %s\n", prop.c_str(), key.c_str(),
                         (unsigned long long)case_index, detail.c_str());
}

static Ctx* g_ctx = nullptr;
Ctx* current_ctx() { return g_ctx; }
static Str g_out;
static volatile sig_atomic_t g_dumping = 0;
static double g_t0 = 0;
static double now() { struct timespec ts; clock_gettime(CLOCK_MONOTONIC, &ts); return ts.tv_sec + ts.tv_nsec * 1e-9; }

static void dump_results(Ctx& c, int crashed_signal, uint64_t crash_index, const char* note, uint64_t next_index) {
    FILE* f = fopen(g_out.c_str(), "w");
    if (!f) return;
    fprintf(f, "{\"monitor\":%s,\"build\":%s,\"worker\":%d,\"nworkers\":%d,\"seed\":%llu,\"tier\":%s,",
            json_str(c.monitor).c_str(), json_str(c.build).c_str(), c.worker, c.nworkers,
            (unsigned long long)c.seed, json_str(c.tier).c_str());
    fprintf(f, "\"cases\":%llu,\"evaluations\":%llu,\"wall_s\":%.3f,", (unsigned long long)c.cases,
            (unsigned long long)c.evaluations, now() - g_t0);
    fprintf(f, "\"crash_signal\":%d,\"crash_index\":%llu,\"crash_note\":%s,\"next_index\":%llu,", crashed_signal,
            (unsigned long long)crash_index, json_str(note ? note : "").c_str(), (unsigned long long)next_index);
    fprintf(f, "\"counters\":{");
    bool first = true;
    for (auto& kv : c.counters) { fprintf(f, "%s%s:%llu", first ? "" : ",", json_str(kv.first).c_str(), (unsigned long long)kv.second); first = false; }
    fprintf(f, "},\"samples\":{");
    first = true;
    for (auto& kv : c.samples) {
        fprintf(f, "%s%s:[", first ? "" : ",", json_str(kv.first).c_str()); first = false;
        for (size_t i = 0; i < kv.second.size(); i++) fprintf(f, "%s%s", i ? "," : "", json_str(kv.second[i]).c_str());
        fprintf(f, "]");
    }
    fprintf(f, "},\"violations\":[");
    first = true;
    for (auto& kv : c.violations) {
        const VioAgg& a = kv.second;
        fprintf(f, "%s{\"prop\":%s,\"key\":%s,\"count\":%llu,\"witnesses\":[", first ? "" : ",", json_str(a.prop).c_str(),
                json_str(a.key).c_str(), (unsigned long long)a.count); first = false;
        for (size_t i = 0; i < a.wit.size(); i++)
            fprintf(f, "%s{\"index\":%llu,\"detail\":%s}", i ? "," : "", (unsigned long long)a.wit[i].index, json_str(a.wit[i].detail).c_str());
        fprintf(f, "]}");
    }
    fprintf(f, "]}\n");
    fclose(f);
    // bitmap of distinct non-trivial cases
    Str bf = g_out + ".bitmap";
    FILE* b = fopen(bf.c_str(), "wb");
    if (b) { fwrite(c.bitmap.data(), 8, c.bitmap.size(), b); fclose(b); }
}

const char* (*crash_explain)(const void* fault_addr) = nullptr;
static void crash_handler(int sig, siginfo_t* si, void*) {
    if (g_dumping) _exit(71);
    g_dumping = 1;
    Ctx& c = *g_ctx;
    char note[700];
    const char* why = (crash_explain && si && (sig == SIGSEGV || sig == SIGBUS)) ? crash_explain(si->si_addr) : nullptr;
    snprintf(note, sizeof note, "prop=%s signal=%d addr=%p%s%s stage=%llu asan=%d note=%s", c.cur_prop, sig, si ? si->si_addr : nullptr, why ? " " : "", why ? why : "",
             (unsigned long long)(c.recorder ? c.recorder[1] : 0), (int)(c.recorder ? c.recorder[2] : 0), c.recorder_note ? c.recorder_note : "");
    dump_results(c, sig, c.case_index, note, c.case_index + 1);
    _exit(70);
}

} // namespace vf

// ASan calls this just before printing its report; we only leave a breadcrumb, abort() follows
// (abort_on_error=1) and lands in crash_handler via SIGABRT.
extern "C" void __asan_on_error(void) {
    if (vf::g_ctx && vf::g_ctx->recorder) vf::g_ctx->recorder[2] = 1;
}

using namespace vf;

static void usage() {
    fprintf(stderr, "usage: vfmon <monitor> [--seed N] [--worker i] [--nworkers n] [--tier quick|thorough]\n"
                    "       [--out file] [--start-index i] [--only-index i] [--build name] [--param k=v]... [--verbose]\nmonitors:\n");
    for (auto& m : monitors()) fprintf(stderr, "  %-12s %s\n", m.name, m.help);
}

int main(int argc, char** argv) {
    if (argc < 2) { usage(); return 2; }
    Ctx ctx; g_ctx = &ctx;
    ctx.monitor = argv[1];
    uint64_t start_index = 0; long long only_index = -1;
    g_out = "/dev/stdout";
    for (int i = 2; i < argc; i++) {
        Str a = argv[i];
        auto need = [&](const char* what) -> const char* { if (i + 1 >= argc) { fprintf(stderr, "missing value for %s\n", what); exit(2); } return argv[++i]; };
        if (a == "--seed") ctx.seed = strtoull(need("--seed"), 0, 10);
        else if (a == "--worker") ctx.worker = atoi(need("--worker"));
        else if (a == "--nworkers") ctx.nworkers = atoi(need("--nworkers"));
        else if (a == "--tier") ctx.tier = need("--tier");
        else if (a == "--out") g_out = need("--out");
        else if (a == "--build") ctx.build = need("--build");
        else if (a == "--start-index") start_index = strtoull(need("--start-index"), 0, 10);
        else if (a == "--only-index") only_index = atoll(need("--only-index"));
        else if (a == "--verbose") ctx.verbose = true;
        else if (a == "--param") { Str kv = need("--param"); size_t e = kv.find('='); if (e == Str::npos) ctx.params[kv] = "1"; else ctx.params[kv.substr(0, e)] = kv.substr(e + 1); }
        else { fprintf(stderr, "unknown argument %s\n", a.c_str()); usage(); return 2; }
    }
    if (ctx.tier == "thorough") ctx.set_bitmap_bits((size_t)1 << 27);
    // every other worker runs under a UTF-8 locale, as after an application's setlocale(LC_ALL, ""): anything in the library that asks
    // the C library about characters (isalnum, iswalnum, tolower, towlower, strtol ...) answers differently there for non-ASCII input
    if ((ctx.worker & 1) && setlocale(LC_ALL, "C.utf8")) ctx.count("worker_under_utf8_locale");
    const Monitor* mon = nullptr;
    for (auto& m : monitors()) if (ctx.monitor == m.name) mon = &m;
    if (!mon) { usage(); return 2; }

    // flight recorder: anonymous is enough, the crash handler runs in-process
    static uint64_t rec[4]; static char notebuf[512];
    ctx.recorder = rec; ctx.recorder_note = notebuf; ctx.recorder_note_cap = sizeof notebuf;

    // alternate stack + handlers
    static char altstack[1 << 16];
    stack_t ss; ss.ss_sp = altstack; ss.ss_size = sizeof altstack; ss.ss_flags = 0; sigaltstack(&ss, nullptr);
    struct sigaction sa; memset(&sa, 0, sizeof sa); sa.sa_sigaction = crash_handler; sa.sa_flags = SA_SIGINFO | SA_ONSTACK | SA_NODEFER;
    int sigs[] = {SIGSEGV, SIGBUS, SIGABRT, SIGFPE, SIGILL, SIGALRM, SIGPROF};
    for (int s : sigs) sigaction(s, &sa, nullptr);

    g_t0 = now();
    uint64_t n = mon->ncases(ctx);
    uint64_t mh = hash_str(ctx.monitor);
    long per_case_alarm = ctx.param_int("case_timeout_s", 60);
    const bool slowlog = getenv("VF_SLOWLOG") != nullptr;       // diagnostic: report cases that take unusually long
    double last_alarm = 0;
    for (uint64_t idx = start_index; idx < n; idx++) {
        if (only_index >= 0) { if (idx < (uint64_t)only_index) { idx = (uint64_t)only_index - 1; continue; } if (idx > (uint64_t)only_index) break; }
        else if ((int)(idx % (uint64_t)ctx.nworkers) != ctx.worker) continue;
        ctx.case_index = idx; rec[0] = idx; rec[1] = 0; notebuf[0] = 0; ctx.attribute(mon->primary_prop);
        ctx.rng.seed(ctx.seed, mh, idx);
        // watchdog in CPU time of this process (ITIMER_PROF), so that a loaded machine cannot make a slow case look like a hang;
        // re-armed at a case boundary at most once a second, i.e. one case gets at least per_case_alarm - 1 CPU seconds
        { double t = now(); if (t - last_alarm > 1.0) { struct itimerval it; memset(&it, 0, sizeof it); it.it_value.tv_sec = per_case_alarm; setitimer(ITIMER_PROF, &it, nullptr); last_alarm = t; } }
        double tc0 = slowlog ? now() : 0;
        mon->run_case(ctx, idx);
        if (slowlog) { double dt = now() - tc0; if (dt > 0.25) fprintf(stderr, "SLOW-CASE %.2fs index=%llu note=%.160s\n", dt, (unsigned long long)idx, notebuf); }
        ctx.cases++;
    }
    { struct itimerval it; memset(&it, 0, sizeof it); setitimer(ITIMER_PROF, &it, nullptr); }
    if (mon->finish) mon->finish(ctx);
    dump_results(ctx, 0, 0, "", n);
    return 0;
}
