// Reading library objects: UriUriA/W -> model components, structural well-formedness,
// deep snapshots of const arguments, recomposition helper.
#ifndef VF_READ_HPP
#define VF_READ_HPP 1
#include "vf_api.hpp"
#include "vf_model.hpp"
#include "vf_mem.hpp"

namespace vf {

struct ObjView {
    Comp c;                 // components as held by the object (path text by the recomposition rule)
    bool abs = false;       // absolutePath flag
    StrVec segs;            // segment list
    bool owner = false;
    bool lossy = false;     // some character was outside 0..255
    Str malformed;          // non-empty: first structural defect found (C02/C07 "well formed")
    // offsets relative to a base pointer, in characters; -1/-1 = NULL range; -2 = outside [base, base+len]
    struct Off { long first = -1, after = -1; };
    Off oScheme, oUser, oHost, oPort, oQuery, oFrag, oFuture; std::vector<Off> oSegs;
};

template <class X>
static inline bool range_ok(const typename X::Range& r, const char* what, Str* bad) {
    if ((r.first == nullptr) != (r.afterLast == nullptr)) { if (bad->empty()) *bad = Str(what) + ": exactly one end of the range is NULL"; return false; }
    if (r.first && r.afterLast < r.first) { if (bad->empty()) *bad = Str(what) + ": afterLast < first"; return false; }
    return true;
}
template <class X>
static inline ObjView::Off range_off(const typename X::Range& r, const typename X::Char* base, size_t len) {
    ObjView::Off o;
    if (!r.first || !r.afterLast) return o;
    if (!base || r.first < base || r.afterLast > base + len || r.afterLast < r.first) { o.first = o.after = -2; return o; }
    o.first = (long)(r.first - base); o.after = (long)(r.afterLast - base); return o;
}

template <class X>
ObjView read_uri(const typename X::Uri& u, const typename X::Char* base = nullptr, size_t len = 0) {
    ObjView v; Str& bad = v.malformed;
    range_ok<X>(u.scheme, "scheme", &bad); range_ok<X>(u.userInfo, "userInfo", &bad); range_ok<X>(u.hostText, "hostText", &bad);
    range_ok<X>(u.hostData.ipFuture, "ipFuture", &bad); range_ok<X>(u.portText, "portText", &bad);
    range_ok<X>(u.query, "query", &bad); range_ok<X>(u.fragment, "fragment", &bad);
    if (!bad.empty()) return v;
    Comp& c = v.c;
    v.owner = u.owner != 0;
    c.hasScheme = u.scheme.first != nullptr; c.scheme = narrow<X>(u.scheme.first, u.scheme.afterLast, &v.lossy);
    int kinds = (u.hostData.ip4 ? 1 : 0) + (u.hostData.ip6 ? 1 : 0) + (u.hostData.ipFuture.first ? 1 : 0);
    if (kinds > 1) bad = "more than one of ip4/ip6/ipFuture set";
    c.hasAuth = u.hostText.first || kinds > 0;
    if (u.hostData.ip4) { c.hostKind = HK_IP4; c.ip.assign((const char*)u.hostData.ip4->data, 4); }
    else if (u.hostData.ip6) { c.hostKind = HK_IP6; c.ip.assign((const char*)u.hostData.ip6->data, 16); }
    else if (u.hostData.ipFuture.first) c.hostKind = HK_FUTURE;
    else if (u.hostText.first) c.hostKind = HK_REGNAME;
    if (c.hostKind == HK_FUTURE) {
        c.host = narrow<X>(u.hostData.ipFuture.first, u.hostData.ipFuture.afterLast, &v.lossy);
        if (bad.empty() && (u.hostText.first != u.hostData.ipFuture.first || u.hostText.afterLast != u.hostData.ipFuture.afterLast)) {
            Str ht = narrow<X>(u.hostText.first, u.hostText.afterLast);
            if (ht != c.host) bad = "hostText differs from hostData.ipFuture";
        }
    } else c.host = narrow<X>(u.hostText.first, u.hostText.afterLast, &v.lossy);
    if (bad.empty() && c.hasAuth && !u.hostText.first) bad = "host data set but hostText NULL";
    c.hasUser = u.userInfo.first != nullptr; c.user = narrow<X>(u.userInfo.first, u.userInfo.afterLast, &v.lossy);
    c.hasPort = u.portText.first != nullptr; c.port = narrow<X>(u.portText.first, u.portText.afterLast, &v.lossy);
    c.hasQuery = u.query.first != nullptr; c.query = narrow<X>(u.query.first, u.query.afterLast, &v.lossy);
    c.hasFrag = u.fragment.first != nullptr; c.frag = narrow<X>(u.fragment.first, u.fragment.afterLast, &v.lossy);
    v.abs = u.absolutePath != 0;
    if (bad.empty() && (u.pathHead == nullptr) != (u.pathTail == nullptr)) bad = "exactly one of pathHead/pathTail is NULL";
    const typename X::Seg* last = nullptr; size_t n = 0;
    for (const typename X::Seg* s = u.pathHead; s; s = s->next) {
        if (++n > 200000) { bad = "path list does not terminate"; break; }
        if (!range_ok<X>(s->text, "segment", &bad)) break;
        if (!s->text.first) { if (bad.empty()) bad = "segment with NULL text"; break; }
        v.segs.push_back(narrow<X>(s->text.first, s->text.afterLast, &v.lossy));
        if (base) v.oSegs.push_back(range_off<X>(s->text, base, len));
        last = s;
    }
    if (bad.empty() && u.pathTail != last) bad = "pathTail is not the last node of the list";
    if (bad.empty() && u.pathTail && u.pathTail->next) bad = "pathTail->next is not NULL";
    if (bad.empty() && c.hasAuth && v.abs) bad = "host set together with absolutePath";
    c.path = segments_to_path(c.hasAuth, v.abs, v.segs);
    if (base) {
        v.oScheme = range_off<X>(u.scheme, base, len); v.oUser = range_off<X>(u.userInfo, base, len); v.oHost = range_off<X>(u.hostText, base, len);
        v.oPort = range_off<X>(u.portText, base, len); v.oQuery = range_off<X>(u.query, base, len); v.oFrag = range_off<X>(u.fragment, base, len);
        v.oFuture = range_off<X>(u.hostData.ipFuture, base, len);
    }
    return v;
}

// Deep byte snapshot of everything reachable from a URI (struct, nodes, ip blocks, texts):
// used to show that const arguments are left bit-for-bit unchanged.
template <class X>
Str deep_snapshot(const typename X::Uri& u) {
    Str s((const char*)&u, sizeof u);
    auto add = [&](const typename X::Range& r) { if (r.first && r.afterLast >= r.first) s.append((const char*)r.first, (size_t)((const char*)r.afterLast - (const char*)r.first)); s.push_back('|'); };
    add(u.scheme); add(u.userInfo); add(u.hostText); add(u.hostData.ipFuture); add(u.portText); add(u.query); add(u.fragment);
    if (u.hostData.ip4) s.append((const char*)u.hostData.ip4, 4);
    if (u.hostData.ip6) s.append((const char*)u.hostData.ip6, 16);
    size_t n = 0;
    for (const typename X::Seg* p = u.pathHead; p && n < 200000; p = p->next, n++) { s.append((const char*)p, sizeof *p); add(p->text); }
    return s;
}

// Structural identity as C11 states it: every component identical (a NULL range differs from an empty one), IP hosts by value (their
// spelling does not count), the absolute-path flag, the sequence of segments. Two objects are "identical" iff their keys are equal;
// works for any object, also hand-filled ones and those a failed operation left behind.
template <class X>
Str struct_key(const typename X::Uri& u) {
    Str k;
    auto rg = [&](const typename X::Range& r) { if (!r.first) { k += "N|"; return; } k += "R"; if (r.afterLast > r.first) k.append((const char*)r.first, (size_t)((const char*)r.afterLast - (const char*)r.first)); k += "|"; };
    rg(u.scheme); k += u.absolutePath ? "A|" : "a|"; rg(u.userInfo);
    bool anyData = u.hostData.ip4 || u.hostData.ip6 || u.hostData.ipFuture.first;
    if (u.hostData.ip4) { k += "4:"; k.append((const char*)u.hostData.ip4->data, 4); } k += "|";
    if (u.hostData.ip6) { k += "6:"; k.append((const char*)u.hostData.ip6->data, 16); } k += "|";
    if (u.hostData.ipFuture.first) { k += "F:"; rg(u.hostData.ipFuture); } k += "|";
    if (!anyData) rg(u.hostText);
    rg(u.portText);
    size_t n = 0; for (const typename X::Seg* p = u.pathHead; p && n < 200000; p = p->next, n++) { k += "/"; rg(p->text); }
    k += "#"; rg(u.query); rg(u.fragment);
    return k;
}

// uriToString with exact-size buffer. Returns library code; *out narrowed text.
template <class X>
int to_string(const typename X::Uri& u, Str* out, bool* lossy = nullptr) {
    int need = -1; int rc;
    { LibScope ls; rc = X::ToStringCharsRequired(&u, &need); }
    if (rc != URI_SUCCESS) return rc;
    if (need < 0 || need > (1 << 28)) return -1000;
    std::vector<typename X::Char> buf((size_t)need + 1);
    int written = -1;
    { LibScope ls; rc = X::ToString(buf.data(), &u, need + 1, &written); }
    if (rc != URI_SUCCESS) return rc;
    if (written != need + 1) return -1001;
    *out = narrow<X>(buf.data(), buf.data() + need, lossy);
    return URI_SUCCESS;
}

} // namespace vf
#endif
