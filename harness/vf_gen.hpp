// Workload generators. Deterministic in (rng state | index).
#ifndef VF_GEN_HPP
#define VF_GEN_HPP 1
#include "vf_common.hpp"

namespace vf {

// G-COVER: every (context, byte) of the un-minimised RFC automaton.
uint64_t gcover_count();                            // big states * 256 * 4 variants
Str gcover_case(uint64_t idx, Rng& rng);            // variant 0: access+c ; 1: access+c+completion ; 2: pumped access + c + completion ; 3: access + c + text going on
// G-ENUM: all strings over an alphabet up to a length; idx -> string (shortlex). count = sum_{l<=L} k^l
uint64_t genum_count(size_t k, size_t maxlen);
Str genum_case(uint64_t idx, const Str& alphabet, size_t maxlen);
// class representatives of the URI-reference automaton (one byte per class), and a random member of the same class
Str dfa_class_reps();
unsigned char dfa_random_member_of_class_of(unsigned char rep, Rng& rng);
// G-WALK: random walk over live states of the minimal automaton
Str gwalk(Rng& rng, size_t maxlen, bool complete);
// point mutations
Str mutate(Rng& rng, const Str& s, int nmut);
// G-URI: structured
struct UriGenOpts { int scheme = -1; int auth = -1; int maxSegs = 6; bool dotHeavy = false; bool noPctDots = false; bool longSeg = true; bool lengths = true;
    bool huge = false; };   // now and then one component of 65535 / 65536 / 65537 / 70000 characters or a path of that many segments (16-bit counters, limits)
// a string of exactly n characters that are legal in any component except the scheme (mix of unreserved, sub-delims and percent triplets)
Str gen_exact_length(Rng& rng, size_t n);
size_t special_length(Rng& rng);                    // one of 1,2,3,4,7,8,15,16,...,255,256,257,...,1024,4095,4096
Str gen_uri(Rng& rng, const UriGenOpts& o = UriGenOpts());
Str gen_ip6(Rng& rng);
Str gen_host(Rng& rng);
Str gen_segment(Rng& rng, bool dotHeavy, bool noPctDots, bool longSeg);
Str gen_abs_base(Rng& rng);                         // absolute base from the base-shape pool
// degenerate combinations enumerated exhaustively: idx in [0, gdegenerate_count())
uint64_t gdegenerate_count();
Str gdegenerate_case(uint64_t idx);
// systematic small paths: all segment lists over a small pool up to n segments
uint64_t gpaths_count(size_t nsegs);
Str gpaths_case(uint64_t idx, size_t nsegs);         // joined with '/', no leading slash
// strings over 1..255 with emphasis on % + CR LF space
Str gen_string(Rng& rng, size_t maxlen);
Str gen_filename_unix(Rng& rng);
Str gen_filename_win(Rng& rng);                     // backslash-only, in C18's domain

} // namespace vf
#endif
