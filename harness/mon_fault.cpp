// Monitor "fault": C14 -- allocation-failure enumeration. For each (call, input): learn the number N of
// allocation requests of the fault-free run, then inject a failure at every k = 1..N, in fail-once and
// fail-from-k-on modes, on fresh identical inputs. Oracles: return code, ledger after ordinary cleanup,
// bad releases, const inputs unchanged, sanitizer (use of released memory).
#include "vf_obj.hpp"
#include "vf_gen.hpp"
#include <memory>

using namespace vf;
namespace {

static uint64_t ncases(Ctx& c) { return (uint64_t)c.param_int("inputs", c.tier == "thorough" ? 600000 : 12000); }

enum Call { C_PARSE, C_ADDBASE, C_REMOVEBASE, C_NORMALIZE, C_MAKEOWNER, C_DISSECT, C_COMPOSE, C_INPLACE_ON_RESULT, C_NCALLS };
static const char* const CALLNAME[] = {"parse", "addbase", "removebase", "normalize", "makeowner", "dissect", "compose", "inplace-on-result"};

struct Plan { Call call; Str a, b; unsigned mask = 0; int flag = 0; bool owned = false; bool dflt = false; QItems items; };

// allocation control: either a Ledger or the libc interposer
struct Ctl {
    Ledger* L; LibcWatch* W;
    void arm(long k, bool from) { if (L) L->arm(k, from); else { W->fail_at = k; W->fail_from = from; W->requests = 0; W->failed = 0; } }
    void disarm() { arm(0, false); }
    uint64_t requests() const { return L ? L->requests : W->requests; }
    uint64_t failed() const { return L ? L->failed : W->failed; }
    size_t outstanding() const { return L ? L->outstanding() : W->live.size(); }
    uint64_t bad_free() const { return L ? L->bad_free : W->bad_free; }
    void clear_events() { if (L) { L->bad_free = 0; L->bad_free_note.clear(); } else W->bad_free = 0; }
    void drop_all() { if (L) L->release_all(); else W->clear_live(); }
    UriMemoryManager* mm() const { return L ? L->mgr() : nullptr; }
};

template <class X> struct Runner {
    typedef typename X::Char Char; typedef typename X::Uri Uri; typedef typename X::QList QList;
    Ctx* c;
    // one execution of the planned call; k == 0: fault-free. Returns false if inputs could not be set up.
    // *nreq receives the number of requests made by the call itself.
    bool exec(const Plan& p, Ctl& ctl, long k, bool from, uint64_t* nreq) {
        Str what = fmt("call=%s%s a=\"%s\" b=\"%s\" mask=0x%x flag=%d %s k=%ld mode=%s", CALLNAME[p.call], p.dflt ? "(default manager)" : "", esc(p.a).c_str(), esc(p.b).c_str(), p.mask, p.flag,
                       p.owned ? "owned" : "borrowed", k, from ? "from-k-on" : "once");
        c->note(Str(X::tag()) + " fault " + what.substr(0, 300));
        Ledger inputsLedger;        // read-only inputs live under another manager
        UriBox<X> A, B;             // const inputs
        int rc = 0; bool reached = false;
        ctl.disarm(); ctl.clear_events();
        // alternate between: really released and poisoned (a touch of released memory derails or is an ASan report) and quarantined but
        // readable (a walk over an already released list ends in *recorded* second releases instead of a crash)
        if (ctl.L) { bool q = ((k + (from ? 1 : 0)) & 1) != 0; ctl.L->quarantine = q; ctl.L->poison_on_free = !q; }
        size_t base_out = ctl.outstanding();
        LibcWatch& lwAll = libc_watch(); uint64_t lw_allocs0 = lwAll.allocs, lw_frees0 = lwAll.frees, lw_bad0 = lwAll.bad_free;
        auto after = [&](const char* cleanupWhat) {
            reached = ctl.failed() > 0;
            *nreq = ctl.requests();
            ctl.disarm();
            if (k > 0 && reached && rc != URI_ERROR_MALLOC) c->violation("C14", fmt("fault/%s/%s/wrong-return-code", X::tag(), CALLNAME[p.call]), what + fmt(" rc=%d (expected URI_ERROR_MALLOC)", rc));
            if (k > 0 && !reached) c->count("fault_not_reached");
            if (k > 0 && reached) c->count(Str("faulted_") + CALLNAME[p.call]);
            (void)cleanupWhat;
        };
        auto verdict = [&]() {
            // ledger discipline is C14's clause on the failure paths and C13's on every path ("released through the same manager with
            // exactly the pointer it returned ... after the matching release call no block is outstanding")
            if (ctl.outstanding() != base_out) { Str key = fmt("fault/%s/%s/leak-after-cleanup%s", X::tag(), CALLNAME[p.call], k == 0 ? "-fault-free" : ""), det = what + fmt(" %zu block(s) outstanding", ctl.outstanding() - base_out);
                c->violation("C14", key, det); c->violation("C13", key, det); ctl.drop_all(); }
            if (ctl.bad_free()) { Str key = fmt("fault/%s/%s/bad-release", X::tag(), CALLNAME[p.call]), det = what + (ctl.L ? " " + ctl.L->bad_free_note : Str(" libc free of unknown pointer"));
                c->violation("C14", key, det); c->violation("C13", key, det);
                // the released pointer is a block of one of the read-only inputs (they live under a manager of their own): the call, or the
                // cleanup it obliges the caller to make, takes a const argument apart
                if (ctl.L && inputsLedger.live.count(ctl.L->last_bad_ptr)) c->violation("C12", fmt("fault/%s/%s/block-of-read-only-input-released", X::tag(), CALLNAME[p.call]), det);
                ctl.clear_events(); }
            if (ctl.L) ctl.L->drain_quarantine();
            // C13 on the failure paths too: with a custom manager nothing may go to the C library allocator
            if (ctl.L && lwAll.available && (lwAll.allocs != lw_allocs0 || lwAll.frees != lw_frees0 || lwAll.bad_free != lw_bad0)) {
                c->violation("C13", fmt("fault/%s/%s/libc-allocator-used-with-custom-manager", X::tag(), CALLNAME[p.call]), what + fmt(" libc allocs=%llu frees=%llu frees-of-foreign-blocks=%llu", (unsigned long long)(lwAll.allocs - lw_allocs0), (unsigned long long)(lwAll.frees - lw_frees0), (unsigned long long)(lwAll.bad_free - lw_bad0)));
                lwAll.bad_free = lw_bad0;
            }
            c->evaluations++;
        };
        switch (p.call) {
        case C_PARSE: {
            typename X::S w = widen<X>(p.a); Uri u; const Char* ep = nullptr;
            ctl.arm(k, from);
            { LibScope ls; rc = p.dflt ? X::ParseSingleUriEx(&u, w.data(), w.data() + w.size(), &ep) : X::ParseSingleUriExMm(&u, w.data(), w.data() + w.size(), &ep, ctl.mm()); }
            after("free members");
            { LibScope ls; if (p.dflt) X::FreeUriMembers(&u); else X::FreeUriMembersMm(&u, ctl.mm()); }
            if (k > 0 && reached) { LibScope ls; if (p.dflt) X::FreeUriMembers(&u); else X::FreeUriMembersMm(&u, ctl.mm()); }   // repeatedly: harmless
            verdict(); return true; }
        case C_ADDBASE: case C_REMOVEBASE: {
            if (A.parse(p.a, &inputsLedger) != URI_SUCCESS || B.parse(p.b, &inputsLedger) != URI_SUCCESS) return false;
            if (p.owned) { A.make_owner(); B.make_owner(); }
            Str sa = deep_snapshot<X>(A.u), sb = deep_snapshot<X>(B.u);
            Uri d; memset(&d, 0xEE, sizeof d);
            ctl.arm(k, from);
            {
                LibScope ls;
                if (p.call == C_ADDBASE) rc = p.dflt ? X::AddBaseUriEx(&d, &A.u, &B.u, p.flag ? URI_RESOLVE_IDENTICAL_SCHEME_COMPAT : URI_RESOLVE_STRICTLY) : X::AddBaseUriExMm(&d, &A.u, &B.u, p.flag ? URI_RESOLVE_IDENTICAL_SCHEME_COMPAT : URI_RESOLVE_STRICTLY, ctl.mm());
                else rc = p.dflt ? X::RemoveBaseUri(&d, &A.u, &B.u, p.flag) : X::RemoveBaseUriMm(&d, &A.u, &B.u, p.flag, ctl.mm());
            }
            after("free dest");
            if (deep_snapshot<X>(A.u) != sa || deep_snapshot<X>(B.u) != sb) { c->violation("C14", fmt("fault/%s/%s/const-input-modified", X::tag(), CALLNAME[p.call]), what); c->violation("C12", fmt("fault/%s/%s/const-input-modified", X::tag(), CALLNAME[p.call]), what); }
            { LibScope ls; if (p.dflt) X::FreeUriMembers(&d); else X::FreeUriMembersMm(&d, ctl.mm()); }
            verdict(); return true; }
        case C_NORMALIZE: case C_MAKEOWNER: {
            typename X::S w = widen<X>(p.a); Uri u; const Char* ep = nullptr; int prc;
            { LibScope ls; prc = p.dflt ? X::ParseSingleUriEx(&u, w.data(), w.data() + w.size(), &ep) : X::ParseSingleUriExMm(&u, w.data(), w.data() + w.size(), &ep, ctl.mm()); }
            if (prc != URI_SUCCESS) return false;
            if (p.owned) { LibScope ls; int orc = p.dflt ? X::MakeOwner(&u) : X::MakeOwnerMm(&u, ctl.mm()); if (orc != URI_SUCCESS) { X::FreeUriMembersMm(&u, ctl.mm()); return false; } }
            typename X::S wcopy = w;
            ctl.arm(k, from);
            { LibScope ls; if (p.call == C_NORMALIZE) rc = p.dflt ? X::NormalizeSyntaxEx(&u, p.mask) : X::NormalizeSyntaxExMm(&u, p.mask, ctl.mm()); else rc = p.dflt ? X::MakeOwner(&u) : X::MakeOwnerMm(&u, ctl.mm()); }
            after("free members");
            if (w != wcopy) c->violation("C14", fmt("fault/%s/%s/source-text-modified", X::tag(), CALLNAME[p.call]), what);
            if (k > 0 && reached && rc == URI_ERROR_MALLOC) {
                // the URI must still be structurally sane enough to be read and freed
                ObjView v = read_uri<X>(u); if (!v.malformed.empty()) c->count("malformed_after_failed_inplace_op");
                // state left over from the failed call: calling again (no failure now) must be memory-safe as well; its result is not judged
                if (((k + (from ? 1 : 0)) & 3) == 0) { LibScope ls; if (p.call == C_NORMALIZE) (void)(p.dflt ? X::NormalizeSyntaxEx(&u, p.mask) : X::NormalizeSyntaxExMm(&u, p.mask, ctl.mm())); else (void)(p.dflt ? X::MakeOwner(&u) : X::MakeOwnerMm(&u, ctl.mm())); c->count("retried_after_failure"); }
            }
            { LibScope ls; if (p.dflt) X::FreeUriMembers(&u); else X::FreeUriMembersMm(&u, ctl.mm()); }
            verdict(); return true; }
        case C_INPLACE_ON_RESULT: {
            // make-owner / normalise applied to an object that resolution or reference creation produced (its nodes were built by other
            // routines than the parser's, its text lives in its inputs): flag bit 2 picks the producer, bit 1 its option, mask 0 = make-owner
            if (A.parse(p.a, &inputsLedger) != URI_SUCCESS || B.parse(p.b, &inputsLedger) != URI_SUCCESS) return false;
            Uri d; memset(&d, 0xEE, sizeof d); int prc;
            { LibScope ls; prc = (p.flag & 2) ? (p.dflt ? X::RemoveBaseUri(&d, &A.u, &B.u, p.flag & 1) : X::RemoveBaseUriMm(&d, &A.u, &B.u, p.flag & 1, ctl.mm()))
                                              : (p.dflt ? X::AddBaseUriEx(&d, &A.u, &B.u, (UriResolutionOptions)(p.flag & 1)) : X::AddBaseUriExMm(&d, &A.u, &B.u, (UriResolutionOptions)(p.flag & 1), ctl.mm())); }
            if (prc != URI_SUCCESS) return false;
            Str sa = deep_snapshot<X>(A.u), sb = deep_snapshot<X>(B.u);
            ctl.arm(k, from);
            { LibScope ls; if (p.mask) rc = p.dflt ? X::NormalizeSyntaxEx(&d, p.mask) : X::NormalizeSyntaxExMm(&d, p.mask, ctl.mm()); else rc = p.dflt ? X::MakeOwner(&d) : X::MakeOwnerMm(&d, ctl.mm()); }
            after("free members");
            if (deep_snapshot<X>(A.u) != sa || deep_snapshot<X>(B.u) != sb) { c->violation("C14", fmt("fault/%s/%s/const-input-modified", X::tag(), CALLNAME[p.call]), what); c->violation("C12", fmt("fault/%s/%s/const-input-modified", X::tag(), CALLNAME[p.call]), what); }
            { LibScope ls; if (p.dflt) X::FreeUriMembers(&d); else X::FreeUriMembersMm(&d, ctl.mm()); }
            verdict(); return true; }
        case C_DISSECT: {
            typename X::S w = widen<X>(p.a); QList* list = (QList*)(uintptr_t)0x10; int count = -5; int* cp = (p.flag & 2) ? nullptr : &count;   // the item count is optional
            ctl.arm(k, from);
            { LibScope ls; rc = p.dflt ? X::DissectQueryMallocEx(&list, cp, w.data(), w.data() + w.size(), p.flag & 1, (UriBreakConversion)(p.mask & 3)) : X::DissectQueryMallocExMm(&list, cp, w.data(), w.data() + w.size(), p.flag & 1, (UriBreakConversion)(p.mask & 3), ctl.mm()); }
            after("free list on success");
            if (rc == URI_SUCCESS) { LibScope ls; if (p.dflt) X::FreeQueryList(list); else X::FreeQueryListMm(list, ctl.mm()); }
            else if (k > 0 && reached && cp && count != 0) c->count("dissect_itemcount_nonzero_after_failure");
            verdict(); return true; }
        case C_COMPOSE: {
            // build the list in harness memory
            std::vector<typename X::S> keys, vals; std::vector<QList> nodes(p.items.size());
            for (auto& it : p.items) { keys.push_back(widen<X>(it.key)); vals.push_back(widen<X>(it.value)); }
            for (size_t i = 0; i < nodes.size(); i++) { nodes[i].key = keys[i].c_str(); nodes[i].value = p.items[i].hasValue ? vals[i].c_str() : nullptr; nodes[i].next = i + 1 < nodes.size() ? &nodes[i + 1] : nullptr; }
            if (nodes.empty()) return false;
            Char* out = (Char*)(uintptr_t)0x10;
            ctl.arm(k, from);
            { LibScope ls; rc = p.dflt ? X::ComposeQueryMallocEx(&out, nodes.data(), p.flag & 1, (p.flag >> 1) & 1) : X::ComposeQueryMallocExMm(&out, nodes.data(), p.flag & 1, (p.flag >> 1) & 1, ctl.mm()); }
            after("free string on success");
            if (rc == URI_SUCCESS) { LibScope ls; if (p.dflt) free(out); else ctl.mm()->free(ctl.mm(), out); }
            verdict(); return true; }
        default: return false;
        }
    }

    void run(Ctx& ctx, const Plan& p) {
        c = &ctx;
        Ledger led; LibcWatch& lw = libc_watch();
        if (p.dflt) { if (!lw.available) return; lw.reset(); lw.clear_live(); }
        Ctl ctl{p.dflt ? nullptr : &led, p.dflt ? &lw : nullptr};
        uint64_t N = 0;
        if (!exec(p, ctl, 0, false, &N)) { ctx.count("skipped_setup"); return; }
        ctx.count(fmt("calls_%s", CALLNAME[p.call]));
        ctx.count(fmt("N_bucket_%s", N == 0 ? "0" : N <= 2 ? "1-2" : N <= 8 ? "3-8" : N <= 20 ? "9-20" : "21+"));
        ctx.distinct(hash_str(p.a + "\x01" + p.b, (uint64_t)p.call * 1000 + p.mask * 4 + (unsigned)p.flag * 2 + (unsigned)p.owned));
        for (uint64_t k = 1; k <= N; k++) for (int from = 0; from < 2; from++) {
            uint64_t dummy; ctx.stage(k * 2 + (uint64_t)from);
            exec(p, ctl, (long)k, from != 0, &dummy);
            ctx.count(fmt("k_%s", k <= 12 ? std::to_string(k).c_str() : "13+"));
        }
        if (p.dflt) { lw.reset(); lw.clear_live(); }
    }
};

static Str valid_uri(Rng& r, const UriGenOpts& o) { for (int i = 0; i < 50; i++) { Str s = gen_uri(r, o); size_t e; if (dfa_uriref(s, &e)) return s; } return "a://h/p"; }

static void run_case(Ctx& c, uint64_t idx) {
    Rng& r = c.rng; Plan p;
    p.call = (Call)(idx % C_NCALLS);
    p.dflt = libc_watch().available && r.chance(1, 4);
    UriGenOpts o; o.maxSegs = 12; o.dotHeavy = r.coin(); o.longSeg = false;
    switch (p.call) {
    case C_PARSE: p.a = r.chance(1, 4) ? mutate(r, valid_uri(r, o), 1) : valid_uri(r, o); break;
    case C_ADDBASE: { p.b = gen_abs_base(r); size_t e; if (!dfa_uriref(p.b, &e)) p.b = "a://h/p/q"; p.a = valid_uri(r, o); p.flag = (int)r.below(2); p.owned = r.chance(1, 4);
        // rarely taken allocation sites: "/" reference under a base authority (empty segment for the cleared absolute flag), guard segment, empty references
        if (r.chance(1, 4)) { static const char* refs[] = {"/", "/?q", "/.//x", ".//..//x", "///", "", "#f", "//h", "//1.2.3.4/", "//[::1]/a/b", "x:/..//y", "a/b/c/../../../..", "/../..", "./"}; p.a = refs[r.below(14)]; }
        if (r.chance(1, 4)) { static const char* bases[] = {"a://h", "a://h/", "a://1.2.3.4:8", "a://[::1]/p/q", "a:b", "a:/", "a:", "a://u@h/x/y/z", "a:/b/c"}; p.b = bases[r.below(9)]; } } break;
    case C_REMOVEBASE: { o.scheme = 1; p.a = valid_uri(r, o); p.b = r.coin() ? gen_abs_base(r) : mutate(r, p.a, 1); size_t e; if (!dfa_uriref(p.b, &e)) p.b = p.a; p.flag = (int)r.below(2); p.owned = r.chance(1, 4);
        // allocation sites of the path walk: dotted base directories ('..' emission by depth), '.' for an empty source path, './' guards, domain root guard
        if (r.chance(1, 3)) { static const char* src[] = {"s:", "s:#f", "s:b:c/d", "s://h/b:c", "s://h//x", "s://h/", "s://h", "s:/a/b/c/d", "s://h/a/b/", "s:a/b", "s://1.2.3.4/x", "s://[::1]/x"};
                              static const char* bas[] = {"s:a", "s:a/b/c", "s:x/./y/z", "s://h/a/../x", "s://h/p/q/r", "s://h/./x", "s:?q", "s:/a/b/../../c/d", "s://h/a/b/c", "s://h", "s://1.2.3.4/y", "s://[::1]/y/z"};
                              p.a = src[r.below(12)]; p.b = bas[r.below(12)]; } } break;
    case C_NORMALIZE: p.a = valid_uri(r, o); p.mask = r.chance(1, 3) ? 63u : r.below(64); p.owned = r.chance(1, 3);
        // shapes that need the owned '.' guard segment or the trailing empty segment after dot removal
        if (r.chance(1, 3)) { static const char* sh[] = {"a/../b:c", "./b:c/d", "/a/..//b", "s:/x/..//y/z", "a/..//b", "//h/a/b/..", "/a/b/c/../..", "x/y/..", "s:a/b/../..", "HTTP://U%41@H%41/%41/./%2e/..?%41#%41", "//[V1.AB]/a/..", "a/b/c/d/e/../../../../.."}; p.a = sh[r.below(12)]; p.mask = r.coin() ? 63u : 8u; } break;
    case C_MAKEOWNER: p.a = valid_uri(r, o); break;
    case C_INPLACE_ON_RESULT: { p.flag = (int)r.below(4); p.mask = r.coin() ? 0u : (r.coin() ? 63u : r.below(64));
        if (p.flag & 2) { o.scheme = 1; p.a = valid_uri(r, o); p.b = r.coin() ? gen_abs_base(r) : mutate(r, p.a, 1); } else { p.a = valid_uri(r, o); p.b = gen_abs_base(r); }
        size_t e; if (!dfa_uriref(p.b, &e)) p.b = "s://h/a/b/c"; } break;
    case C_DISSECT: { int n = r.range(0, 6); for (int i = 0; i < n; i++) { if (i) p.a += '&'; p.a += gen_string(r, 6); if (r.coin()) { p.a += '='; p.a += gen_string(r, 6); } } for (auto& ch : p.a) if (ch == 0) ch = 'x'; p.flag = (int)r.below(4); p.mask = r.below(4); } break;
    default: { int n = r.range(1, 5); for (int i = 0; i < n; i++) { QItem it; it.key = gen_string(r, 6); it.hasValue = r.coin(); it.value = gen_string(r, 6);
                   if (r.chance(1, 12)) { Str t((size_t)special_length(r) % 1100, 'a'); for (auto& ch : t) ch = "0123456789abcdef-._~ &=%\n"[r.below(r.coin() ? 16 : 25)]; it.hasValue = true; it.value = t; }     // a long token or text: worst-case and actual size far apart
                   p.items.push_back(it); p.a += it.key + "=" + it.value + "&"; } p.flag = (int)r.below(4); } break;
    }
    // now and then one component made of 16 .. 100 decodable triplets (a copy that shrinks a lot when repaired)
    if ((p.call == C_NORMALIZE || p.call == C_MAKEOWNER) && r.chance(1, 40)) { Str t; int n = r.range(16, 100); for (int i = 0; i < n; i++) t += r.chance(1, 8) ? "%2F" : (r.coin() ? "%41" : "%7e"); static const char* const W[] = {"s://h/p?", "s://h/", "s://u", "s://", "s://h/p#"}; int w = (int)r.below(5); p.a = Str(W[w]) + t + (w == 2 ? "@h/p" : w == 3 ? "/p" : ""); if (p.call == C_NORMALIZE) p.mask = 63u; }
    if (idx % 3 == 1) { Runner<ApiW> w; w.run(c, p); } else { Runner<ApiA> a; a.run(c, p); }
    if (idx % 700 == 5) c.sample(CALLNAME[p.call], esc(p.a) + (p.b.empty() ? "" : " | " + esc(p.b)) + fmt(" mask=0x%x flag=%d", p.mask, p.flag));
}
static void fuzz_one(Ctx& c, const unsigned char* d, size_t n) {
    if (n < 2) return; if (n > 300) n = 300;
    Plan p; p.call = (Call)(d[0] % C_NCALLS); unsigned f = d[1]; p.flag = f & 3; p.owned = f & 4; p.mask = (f & 8) ? 63u : (f >> 2) & 63u; p.dflt = false;
    Str rest((const char*)d + 2, n - 2); for (auto& ch : rest) if (!ch) ch = 'x';
    size_t e;
    switch (p.call) {
    case C_PARSE: case C_DISSECT: p.a = rest; break;
    case C_ADDBASE: case C_REMOVEBASE: fuzz_split2((const unsigned char*)rest.data(), rest.size(), &p.a, &p.b); if (!dfa_uriref(p.a, &e) || !dfa_uriref(p.b, &e)) return; p.flag &= 1; break;
    case C_NORMALIZE: case C_MAKEOWNER: p.a = rest; if (!dfa_uriref(p.a, &e)) return; break;
    default: { size_t a = 0; while (a <= rest.size() && p.items.size() < 6) { size_t q = rest.find('\x01', a); Str it = rest.substr(a, q == Str::npos ? Str::npos : q - a); QItem qi; size_t v = it.find('\x02'); qi.key = it.substr(0, v); qi.hasValue = v != Str::npos; if (qi.hasValue) qi.value = it.substr(v + 1); p.items.push_back(qi); if (q == Str::npos) break; a = q + 1; } p.a = rest; } break;
    }
    if (p.call == C_DISSECT) p.mask &= 3;
    if (f & 128) { Runner<ApiW> w; w.run(c, p); } else { Runner<ApiA> a; a.run(c, p); }
}
static Monitor mon = {"fault", "C14: allocation-failure enumeration over every request index of every call, fail-once and fail-from-k", "C14", ncases, run_case, nullptr, fuzz_one};
VF_REGISTER(mon);
}
