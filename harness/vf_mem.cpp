#include "vf_mem.hpp"
#include <cerrno>
#include <sys/mman.h>
#include <unistd.h>
#include <sched.h>
#include <time.h>

#if defined(__has_feature)
# if __has_feature(address_sanitizer) || __has_feature(thread_sanitizer) || __has_feature(memory_sanitizer)
#  define VF_SANITIZED 1
# endif
#endif
#if defined(__SANITIZE_ADDRESS__) || defined(__SANITIZE_THREAD__)
# define VF_SANITIZED 1
#endif

#ifdef VF_WRAP
extern "C" {
void* __real_malloc(size_t);
void* __real_calloc(size_t, size_t);
void* __real_realloc(void*, size_t);
void* __real_reallocarray(void*, size_t, size_t);
void __real_free(void*);
}
#endif

namespace vf {

thread_local int tl_in_lib = 0;
thread_local int tl_in_cb = 0;

bool build_has_sanitizer() {
#ifdef VF_SANITIZED
    return true;
#else
    return false;
#endif
}

void* raw_malloc(size_t n) {
#ifdef VF_WRAP
    return __real_malloc(n);
#else
    return malloc(n);
#endif
}
void raw_free(void* p) {
#ifdef VF_WRAP
    __real_free(p);
#else
    free(p);
#endif
}

// ---------------------------------------------------------------- ledger
static void maybe_yield(Ledger* L) {
    if (!L->yield_in_cb) return;
    L->yield_state = mix64(L->yield_state);
    unsigned r = (unsigned)(L->yield_state & 63);
    if (r < 8) sched_yield();
    else if (r == 8) { struct timespec ts = {0, (long)((L->yield_state >> 8) % 50000)}; nanosleep(&ts, nullptr); }
}
bool Ledger::should_fail() {
    requests++;
    if (fail_at > 0 && ((long)requests == fail_at || (fail_from && (long)requests > fail_at))) { failed++; errno = ENOMEM; return true; }
    return false;
}
void* Ledger::do_alloc(size_t n, bool zero) {
    void* p = raw_malloc(n ? n : 1);
    if (!p) return nullptr;
    if (zero) memset(p, 0, n); else memset(p, 0xA5, n);     // never hand out accidentally-zero memory
    live[p] = n; live_bytes += n; if (live_bytes > peak_live) peak_live = live_bytes;
    return p;
}
void Ledger::do_free(void* p) {
    if (!p) { free_null++; return; }
    auto it = live.find(p);
    if (it == live.end()) {
        bad_free++; last_bad_ptr = p;
        bool twice = dead.find(p) != dead.end(); if (twice) double_release++;
        if (bad_free_note.empty()) bad_free_note = twice ? fmt("manager %d: %p released a second time", id, p) : fmt("manager %d: release of %p which is not a live block of this manager", id, p);
        return;     // do not forward: keeps the process alive so the event is reported, not crashed on
    }
    if (poison_on_free) memset(p, 0xDD, it->second);
    live_bytes -= it->second;
    size_t n = it->second;
    live.erase(it); releases++;
    if (quarantine) dead[p] = n; else raw_free(p);
}
void Ledger::drain_quarantine() { if (dead.empty()) return; for (auto& kv : dead) raw_free(kv.first); if (dead.bucket_count() > 2048) std::unordered_map<void*, size_t>().swap(dead); else dead.clear(); }
Ledger::~Ledger() { drain_quarantine(); }
static void* L_malloc(UriMemoryManager* m, size_t n) { CbScope cb; Ledger* L = (Ledger*)m->userData; maybe_yield(L); if (L->should_fail()) return nullptr; return L->do_alloc(n, false); }
static void* L_calloc(UriMemoryManager* m, size_t a, size_t b) {
    CbScope cb; Ledger* L = (Ledger*)m->userData; maybe_yield(L);
    if (L->should_fail()) return nullptr;
    if (a && b > (size_t)-1 / a) { errno = ENOMEM; return nullptr; }
    return L->do_alloc(a * b, true);
}
static void* L_realloc(UriMemoryManager* m, void* p, size_t n) {
    CbScope cb; Ledger* L = (Ledger*)m->userData; maybe_yield(L);
    if (!p) { if (L->should_fail()) return nullptr; return L->do_alloc(n, false); }
    if (n == 0) { L->do_free(p); return nullptr; }
    if (L->should_fail()) return nullptr;
    auto it = L->live.find(p);
    if (it == L->live.end()) { L->bad_free++; if (L->bad_free_note.empty()) L->bad_free_note = fmt("manager %d: realloc of foreign pointer %p", L->id, p); return nullptr; }
    size_t old = it->second; void* q = L->do_alloc(n, false); if (!q) return nullptr;
    memcpy(q, p, old < n ? old : n); L->do_free(p); L->releases--; return q;
}
static void* L_reallocarray(UriMemoryManager* m, void* p, size_t a, size_t b) {
    if (a && b > (size_t)-1 / a) { errno = ENOMEM; return nullptr; }
    return L_realloc(m, p, a * b);
}
static void L_free(UriMemoryManager* m, void* p) { CbScope cb; Ledger* L = (Ledger*)m->userData; maybe_yield(L); L->do_free(p); }

Ledger::Ledger() {
    mm.malloc = L_malloc; mm.calloc = L_calloc; mm.realloc = L_realloc; mm.reallocarray = L_reallocarray; mm.free = L_free; mm.userData = this;
}
Str Ledger::describe_live() const {
    Str s; int n = 0;
    for (auto& kv : live) { if (n++ >= 6) { s += " ..."; break; } s += fmt(" %p(%zu)", kv.first, kv.second); }
    return fmt("%zu block(s) outstanding:%s", live.size(), s.c_str());
}
void Ledger::release_all() { for (auto& kv : live) raw_free(kv.first); if (live.bucket_count() > 2048) std::unordered_map<void*, size_t>().swap(live); else live.clear(); live_bytes = 0; drain_quarantine(); }

// ---------------------------------------------------------------- libc interposer
LibcWatch& libc_watch() { static LibcWatch w{
#ifdef VF_WRAP
    true
#else
    false
#endif
    }; return w; }

} // namespace vf

#ifdef VF_WRAP
using vf::tl_in_lib; using vf::tl_in_cb;
static inline bool watching() { return tl_in_lib > 0 && tl_in_cb == 0; }
static bool w_should_fail(vf::LibcWatch& w) {
    w.requests++;
    if (w.fail_at > 0 && ((long)w.requests == w.fail_at || (w.fail_from && (long)w.requests > w.fail_at))) { w.failed++; errno = ENOMEM; return true; }
    return false;
}
extern "C" void* __wrap_malloc(size_t n) {
    if (!watching()) return __real_malloc(n);
    vf::LibcWatch& w = vf::libc_watch(); vf::CbScope cb;
    if (w_should_fail(w)) return nullptr;
    void* p = __real_malloc(n ? n : 1); if (p) { memset(p, 0xA5, n); w.allocs++; w.live[p] = n; } return p;
}
extern "C" void* __wrap_calloc(size_t a, size_t b) {
    if (!watching()) return __real_calloc(a, b);
    vf::LibcWatch& w = vf::libc_watch(); vf::CbScope cb;
    if (w_should_fail(w)) return nullptr;
    void* p = __real_calloc(a, b); if (p) { w.allocs++; w.live[p] = a * b; } return p;
}
extern "C" void* __wrap_realloc(void* q, size_t n) {
    if (!watching()) return __real_realloc(q, n);
    vf::LibcWatch& w = vf::libc_watch(); vf::CbScope cb;
    if (q && !w.live.count(q)) { w.bad_free++; return nullptr; }
    if (n && w_should_fail(w)) return nullptr;
    void* p = __real_realloc(q, n);
    if (q && (p || n == 0)) { w.live.erase(q); w.frees++; }
    if (p) { w.allocs++; w.live[p] = n; }
    return p;
}
extern "C" void* __wrap_reallocarray(void* q, size_t a, size_t b) {
    if (!watching()) return __real_reallocarray(q, a, b);
    if (a && b > (size_t)-1 / a) { errno = ENOMEM; return nullptr; }
    return __wrap_realloc(q, a * b);
}
extern "C" void __wrap_free(void* p) {
    if (!watching()) { __real_free(p); return; }
    vf::LibcWatch& w = vf::libc_watch(); vf::CbScope cb;
    if (!p) return;
    auto it = w.live.find(p);
    if (it == w.live.end()) { w.bad_free++; return; }
    memset(p, 0xDD, it->second);
    w.live.erase(it); w.frees++; __real_free(p);
}
#endif

namespace vf {

// ---------------------------------------------------------------- guarded memory
static size_t pagesz() { static size_t p = (size_t)sysconf(_SC_PAGESIZE); return p; }

GuardRegion::GuardRegion(size_t min_bytes) {
    size_t ps = pagesz();
    usable = ((min_bytes + ps - 1) / ps) * ps; if (usable == 0) usable = ps;
    char* m = (char*)mmap(nullptr, usable + 2 * ps, PROT_NONE, MAP_PRIVATE | MAP_ANONYMOUS, -1, 0);
    if (m == MAP_FAILED) { perror("mmap"); abort(); }
    base = m + ps;
    if (mprotect(base, usable, PROT_READ | PROT_WRITE) != 0) { perror("mprotect"); abort(); }
}
GuardRegion::~GuardRegion() { if (base) munmap(base - pagesz(), usable + 2 * pagesz()); }
void* GuardRegion::place_end(const void* data, size_t n) {
    if (ro) unprotect();
    if (n > usable) { fprintf(stderr, "GuardRegion too small\n"); abort(); }
    char* p = base + usable - n; if (n) memcpy(p, data, n); return p;
}
void* GuardRegion::place_start(const void* data, size_t n) {
    if (ro) unprotect();
    if (n > usable) { fprintf(stderr, "GuardRegion too small\n"); abort(); }
    if (n) memcpy(base, data, n); return base;
}
void GuardRegion::protect_ro() { if (!ro) { mprotect(base, usable, PROT_READ); ro = true; } }
void GuardRegion::unprotect() { if (ro) { mprotect(base, usable, PROT_READ | PROT_WRITE); ro = false; } }

GuardedInput::~GuardedInput() { if (heap && ptr) raw_free(ptr); delete region; }
void GuardedInput::set(const void* data, size_t n, int where) {
    nbytes = n; snapshot.assign((const char*)data, n);
    if (build_has_sanitizer()) {
        if (heap && ptr) raw_free(ptr);
        heap = true; ptr = malloc(n ? n : 1);      // sanitizer's malloc: red zones on both sides
        if (n) memcpy(ptr, data, n);
        return;
    }
    if (!region || region->usable < n) { delete region; region = new GuardRegion(n < 65536 ? 65536 : n); }
    ptr = where == 0 ? region->place_end(data, n) : region->place_start(data, n);
}
void GuardedInput::freeze() { if (region) region->protect_ro(); }
void GuardedInput::thaw() { if (region) region->unprotect(); }

OutBuf::~OutBuf() { if (block) free(block); delete region; }
void* OutBuf::make(size_t cap, int mode_, unsigned char pattern) {
    cap_bytes = cap; mode = mode_; pat = pattern;
    if (block) { free(block); block = nullptr; }
    if (mode == 0) {
        block_bytes = cap + 2 * PAD; block = (char*)malloc(block_bytes);
        memset(block, pat, block_bytes); dest = block + PAD; return dest;
    }
    if (build_has_sanitizer()) {
        block_bytes = cap; block = (char*)malloc(cap ? cap : 1); memset(block, pat, cap); dest = block; return dest;
    }
    if (!region || region->usable < cap + PAD) { delete region; region = new GuardRegion(cap + PAD < 65536 ? 65536 : cap + PAD); }
    dest = region->base + region->usable - cap;
    memset(dest - PAD, pat, cap + PAD);
    return dest;
}
bool OutBuf::canaries_ok(long* where) const {
    if (mode == 0) {
        for (size_t i = 0; i < PAD; i++) if ((unsigned char)block[i] != pat) { if (where) *where = (long)i - (long)PAD; return false; }
        for (size_t i = 0; i < PAD; i++) if ((unsigned char)dest[cap_bytes + i] != pat) { if (where) *where = (long)(cap_bytes + i); return false; }
        return true;
    }
    if (!build_has_sanitizer() && region) {
        for (size_t i = 0; i < PAD; i++) if ((unsigned char)(dest - PAD)[i] != pat) { if (where) *where = (long)i - (long)PAD; return false; }
    }
    return true;
}
bool OutBuf::untouched_from(size_t i) const {
    for (; i < cap_bytes; i++) if ((unsigned char)dest[i] != pat) return false;
    return true;
}

} // namespace vf
