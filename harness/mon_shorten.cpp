// Monitor "shorten": C10 -- uriRemoveBaseUri* is the inverse of resolution.
#include "vf_obj.hpp"
#include "vf_gen.hpp"

using namespace vf;
namespace {

// systematic: authority variants x source path x base path over a small segment pool
static const char* const AUTHS[] = {"", "//h", "//u@h:1", "//g"};
static const size_t NAUTH = sizeof(AUTHS) / sizeof(AUTHS[0]);
static const char* const PSEG[] = {"", "a", "b", "b:c"};
static const size_t NPSEG = 4;
static uint64_t npath(size_t n) { return genum_count(NPSEG, n); }
static Str path_case(uint64_t idx, size_t n) {
    uint64_t p = 1; size_t l = 0; while (l <= n && idx >= p) { idx -= p; p *= NPSEG; l++; }
    StrVec v(l); for (size_t i = 0; i < l; i++) { v[l - 1 - i] = PSEG[idx % NPSEG]; idx /= NPSEG; }
    Str s; for (size_t i = 0; i < l; i++) { if (i) s += '/'; s += v[i]; } return s;
}
static const size_t SEGN = 3;
static uint64_t nsys() { return (uint64_t)NAUTH * NAUTH * 2 * 2 * npath(SEGN) * npath(SEGN); }
static uint64_t ncases(Ctx& c) { return nsys() + (uint64_t)c.param_int("random", c.tier == "thorough" ? 10000000 : 300000); }

static Str canon(const Comp& c0) {          // dot-normalised, empty path under authority == "/"
    Comp c = c0;
    c.path = remove_dots(c.path, c.hasAuth || (!c.path.empty() && c.path[0] == '/'));
    if (c.hasAuth && c.path.empty()) c.path = "/";
    if (!c.hasAuth && c.path.size() >= 2 && c.path[0] == '/' && c.path[1] == '/') c.path = "/." + c.path;   // keep it readable as a path
    return recompose(c);
}
static bool same_authority(const Comp& a, const Comp& b) {
    if (a.hasAuth != b.hasAuth) return false;
    if (!a.hasAuth) return true;
    if (a.hasUser != b.hasUser || a.user != b.user || a.hasPort != b.hasPort || a.port != b.port || a.hostKind != b.hostKind) return false;
    if (a.hostKind == HK_IP4 || a.hostKind == HK_IP6) return a.ip == b.ip;
    return a.host == b.host;
}
// can some reference without scheme (and, if wantNoAuth, without authority) resolve against B to S (modulo canon)?
// constructive: try the obvious candidates.
static bool exists_ref(const Comp& S, const Comp& B, bool wantNoAuth, Str* witness, bool absolutePathOnly = false) {
    std::vector<Comp> cands;
    Comp r; r.hasQuery = S.hasQuery; r.query = S.query; r.hasFrag = S.hasFrag; r.frag = S.frag;
    if (!wantNoAuth) {
        if (!S.hasAuth) { /* a network-path reference always has an authority; without one we need the no-auth form */ }
        else { Comp a = r; a.hasAuth = true; a.hasUser = S.hasUser; a.user = S.user; a.hostKind = S.hostKind; a.host = S.host; a.ip = S.ip; a.hasPort = S.hasPort; a.port = S.port; a.path = S.path; cands.push_back(a); }
    }
    // absolute-path reference
    if (!S.path.empty() && S.path[0] == '/') { Comp a = r; a.path = S.path; if (S.path.size() >= 2 && S.path[1] == '/') a.path = "/." + S.path; cands.push_back(a); }
    // relative-path references: strip common directory prefix, add "../"
    if (!absolutePathOnly) {
        Str sp = S.path, bp = B.path;
        if (B.hasAuth && bp.empty()) bp = "/";
        if (S.hasAuth && sp.empty()) sp = "/";
        size_t cut = bp.rfind('/');
        Str bdir = cut == Str::npos ? Str() : bp.substr(0, cut + 1);
        // walk up from bdir
        Str up;
        for (int k = 0; k < 12; k++) {
            if (sp.size() >= bdir.size() && sp.compare(0, bdir.size(), bdir) == 0 && (bdir.empty() ? true : true)) {
                Str rest = sp.substr(bdir.size());
                Comp a = r; a.path = up + rest;
                if (a.path.empty()) { Comp e2 = a; e2.path = "./"; cands.push_back(e2); }
                size_t fs = a.path.find('/'); Str first = a.path.substr(0, fs);
                if (first.find(':') != Str::npos || a.path.empty() || a.path[0] == '/') a.path = "./" + a.path;
                cands.push_back(a);
            }
            if (bdir.empty() || bdir == "/") break;
            size_t p = bdir.rfind('/', bdir.size() - 2);
            bdir = p == Str::npos ? Str() : bdir.substr(0, p + 1);
            up += "../";
        }
        if (sp == bp || (S.path == B.path)) { Comp a = r; if (!(S.hasQuery) && B.hasQuery) { /* empty ref would inherit B's query */ } else { a.path = ""; cands.push_back(a); } }
    }
    Str want = canon(S);
    for (const Comp& cnd : cands) {
        if (wantNoAuth && cnd.hasAuth) continue;
        Str t = recompose(cnd); size_t e; if (!dfa_uriref(t, &e)) continue;
        Comp re = split(t); if (re.hasScheme) continue; if (wantNoAuth && re.hasAuth) continue;
        Comp T; if (!resolve(B, re, false, &T)) continue;
        if (canon(T) == want) { if (witness) *witness = t; return true; }
    }
    return false;
}

template <class X> void run(Ctx& c, const Str& Ss, const Str& Bs, const char* gen) {
    UriBox<X> S, B;
    // "window": source and base are two ranges of ONE buffer that start at the same address (corresponding components then start at the
    // same address too and differ only in where they end)
    typename X::S shared; bool window = strcmp(gen, "window") == 0;
    if (window) { const Str& longer = Ss.size() >= Bs.size() ? Ss : Bs; shared = widen<X>(longer);
        if (S.parse_view(shared.data(), Ss.size(), Ss) != URI_SUCCESS || B.parse_view(shared.data(), Bs.size(), Bs) != URI_SUCCESS) { c.count("skipped_invalid"); return; } }
    else
    if (S.parse(Ss) != URI_SUCCESS || B.parse(Bs) != URI_SUCCESS) { c.count("skipped_invalid"); return; }
    if (!S.faithful() || !B.faithful()) { c.count("skipped_unfaithful_parse"); return; }
    Comp ms = split(Ss), mb = split(Bs);
    c.note(fmt("%s shorten src=\"%s\" base=\"%s\"", X::tag(), esc(Ss.substr(0, 150)).c_str(), esc(Bs.substr(0, 150)).c_str()));
    Ledger led;
    for (int variant = 0; variant < 3; variant++) {
        bool root = variant == 1 || (variant == 2 && c.rng.coin());
        // the mode is a UriBool: now and then a non-zero value other than URI_TRUE. How the library reads it is its business (the unchanged
        // one takes only URI_TRUE for "domain root"); the reference must resolve back to the source whichever way it reads it
        int modeArg = root ? URI_TRUE : URI_FALSE; bool oddMode = variant >= 1 && c.rng.chance(1, 12); if (oddMode) { static const int T[] = {2, -1, 0x100}; modeArg = T[c.rng.below(3)]; root = false; c.count("non_canonical_mode_values"); }
        Str snapS = deep_snapshot<X>(S.u), snapB = deep_snapshot<X>(B.u);
        UriBox<X> D; memset(&D.u, 0xEE, sizeof D.u); int rc;
        c.stage((uint64_t)variant + 1);
        const typename X::Uri* src = (Ss == Bs && (variant == 0 || (c.case_index & 1))) ? &B.u : &S.u;      // source and base the very same object, in either mode
        { LibScope ls; if (variant < 2) rc = X::RemoveBaseUri(&D.u, src, &B.u, modeArg); else { D.led = &led; rc = X::RemoveBaseUriMm(&D.u, src, &B.u, modeArg, led.mgr()); } }
        c.evaluations++;
        Str what = fmt("source=\"%s\" base=\"%s\" %s", esc(Ss).c_str(), esc(Bs).c_str(), root ? "domain-root" : "relative");
        if (deep_snapshot<X>(S.u) != snapS || deep_snapshot<X>(B.u) != snapB) c.violation("C12", fmt("shorten/%s/const-argument-modified", X::tag()), what);
        if (!mb.hasScheme || !ms.hasScheme) {
            int want = !mb.hasScheme ? URI_ERROR_REMOVEBASE_REL_BASE : URI_ERROR_REMOVEBASE_REL_SOURCE;
            c.count("non_absolute_argument");
            if (rc != want && !(rc == URI_ERROR_REMOVEBASE_REL_SOURCE && !ms.hasScheme) ) c.violation("C10", fmt("shorten/%s/non-absolute-error-code", X::tag()), what + fmt(" rc=%d expected=%d", rc, want));
            if (rc == URI_SUCCESS) D.live = true;
            if (variant == 2 && rc != URI_SUCCESS && led.outstanding()) { c.violation("C13", fmt("shorten/%s/leak-after-error", X::tag()), what + " " + led.describe_live()); led.release_all(); }
            continue;
        }
        if (rc != URI_SUCCESS) { c.violation("C10", fmt("shorten/%s/unexpected-error", X::tag()), what + fmt(" rc=%d", rc)); continue; }
        D.live = true;
        Str rt = D.text_of_fields();
        what += fmt(" reference=\"%s\"", esc(rt).c_str());
        produced_equals_own_text<X>(c, D.u, "shorten", root ? "createref-domain-root" : "createref", what);
        c.distinct(hash_str(Ss + "\x01" + Bs, (uint64_t)root));
        bool schemesDiffer = ms.scheme != mb.scheme;
        c.count(schemesDiffer ? "case_schemes_differ" : !same_authority(ms, mb) ? "case_authority_differs" : root ? "case_domain_root" : "case_relative_path");
        // (a) round trip through the library's own resolver and through the model
        UriBox<X> T; int rr; { LibScope ls; rr = X::AddBaseUri(&T.u, &D.u, &B.u); } T.live = rr == URI_SUCCESS; c.evaluations++;
        Str want = canon(ms);
        Str viaLib = "<resolve failed>";
        if (rr == URI_SUCCESS) { Str tt = T.text_of_fields(); size_t e; viaLib = dfa_uriref(tt, &e) ? canon(split(tt)) : "<not a uri: " + tt + ">"; }
        Str viaModel = "<reference text is not a URI reference>";
        { size_t e; if (dfa_uriref(rt, &e)) { Comp Tm; if (resolve(mb, split(rt), false, &Tm)) viaModel = canon(Tm); } }
        // RFC resolution (the model) is the arbiter; the library's own resolver is judged by C06, a disagreement is only counted
        if (viaLib != want && viaModel == want) c.count("library_resolver_disagrees_with_model");
        if (viaModel != want) {
            c.violation("C10", fmt("shorten/%s/round-trip/%s", X::tag(), viaLib == want ? "model-only" : "both"),
                        what + fmt(" resolves-to(lib)=\"%s\" resolves-to(model)=\"%s\" source-canonical=\"%s\" [%s]", esc(viaLib).c_str(), esc(viaModel).c_str(), esc(want).c_str(), gen));
        } else c.count("round_trip_ok");
        // (b) shape of the reference
        size_t e; bool rvalid = dfa_uriref(rt, &e); Comp mrf; if (rvalid) mrf = split(rt);
        if (oddMode) { /* which mode this was is the library's reading: only the round trip is judged */ }
        else if (schemesDiffer) {
            if (rt != recompose(ms)) c.violation("C10", fmt("shorten/%s/schemes-differ-not-source", X::tag()), what);
        } else if (rvalid) {
            Str w;
            if (mrf.hasScheme && exists_ref(ms, mb, false, &w, root)) c.violation("C10", fmt("shorten/%s/scheme-kept", X::tag()), what + fmt(" e.g. \"%s\" would do", esc(w).c_str()));
            if (!mrf.hasScheme && mrf.hasAuth && same_authority(ms, mb) && exists_ref(ms, mb, true, &w, root)) c.violation("C10", fmt("shorten/%s/authority-kept", X::tag()), what + fmt(" e.g. \"%s\" would do", esc(w).c_str()));
            if (root && same_authority(ms, mb) && !mrf.hasAuth && !mrf.hasScheme && !(mrf.path.size() && mrf.path[0] == '/'))
                c.violation("C10", fmt("shorten/%s/domain-root-path-not-absolute", X::tag()), what);
        }
        D.free_members();
        if (variant == 2) {
            if (led.outstanding()) { c.violation("C13", fmt("shorten/%s/leak-after-free", X::tag()), what + " " + led.describe_live()); led.release_all(); }
            if (led.bad_free) { c.violation("C13", fmt("shorten/%s/bad-free", X::tag()), what + " " + led.bad_free_note); led.bad_free = 0; led.bad_free_note.clear(); }
        }
    }
}

static void run_case(Ctx& c, uint64_t idx) {
    Str S, B; const char* gen;
    if (idx < nsys()) {
        gen = "systematic"; uint64_t i = idx;
        Str as = AUTHS[i % NAUTH]; i /= NAUTH; Str ab = AUTHS[i % NAUTH]; i /= NAUTH;
        bool rs = i % 2; i /= 2; bool rb = i % 2; i /= 2;
        Str ps = path_case(i % npath(SEGN), SEGN); i /= npath(SEGN); Str pb = path_case(i, SEGN);
        S = "s:" + as + ((rs || !as.empty()) && !(as.size() && ps.empty() && !rs) ? "/" : "") + ps;
        B = "s:" + ab + ((rb || !ab.empty()) && !(ab.size() && pb.empty() && !rb) ? "/" : "") + pb;
    } else {
        Rng& r = c.rng; gen = "random";
        B = gen_abs_base(r);
        switch (r.below(5)) {
        case 0: S = r.chance(1, 6) ? B : gen_abs_base(r); break;
        case 1: { UriGenOpts o; o.scheme = 1; o.dotHeavy = false; S = gen_uri(r, o); } break;
        case 2: S = mutate(r, B, 1); gen = "mutated-base"; break;
        case 3: { // same authority, overlapping paths
            size_t e; if (dfa_uriref(B, &e)) { Comp b = split(B); Comp s = b; StrVec segs; bool abs; path_to_segments(b.path, b.hasAuth, &abs, &segs);
                int op = r.below(5); if (op == 0 && !segs.empty()) segs.pop_back(); else if (op == 1) segs.push_back(gen_segment(r, false, true, false)); else if (op == 2 && !segs.empty()) segs.back() = gen_segment(r, false, true, false); else if (op == 3) segs.push_back(""); else if (!segs.empty()) segs[r.below((uint32_t)segs.size())] = gen_segment(r, false, true, false);
                s.path = segments_to_path(b.hasAuth, abs, segs); if (r.coin()) { s.hasQuery = r.coin(); s.query = "k"; } if (r.chance(1, 4)) { s.hasFrag = true; s.frag = "f"; } S = recompose(s); gen = "overlap"; } else S = B; } break;
        default: { size_t e; if (dfa_uriref(B, &e)) { Comp b = split(B); Comp s = b; int op = r.below(4); if (op == 0) { static const char* const DP[] = {"9", "80", "443", "21", "8080", "", "080", "65535"}; s.hasPort = !s.hasPort; s.port = DP[r.below(8)]; } else if (op == 1) { s.hasUser = !s.hasUser; s.user = "w"; } else if (op == 2 && s.hasAuth) { s.host = "other"; s.hostKind = HK_REGNAME; s.ip.clear(); } else { s.hasAuth = !s.hasAuth; if (s.hasAuth) { s.hostKind = HK_REGNAME; s.host = "h"; if (!s.path.empty() && s.path[0] != '/') s.path = "/" + s.path; } else { s.hasUser = s.hasPort = false; s.hostKind = HK_NONE; s.host.clear(); s.ip.clear(); } } if (!s.hasAuth) { s.hasUser = s.hasPort = false; } S = recompose(s); gen = "authority-variant"; } else S = B; } break;
        }
        if (r.chance(1, 16)) {      // the shapes scheme-specific special cases key on: default ports, file: with an empty authority or localhost, drive letters
            static const struct { const char* scheme; const char* port; } W[] = {{"http", "80"}, {"https", "443"}, {"ftp", "21"}, {"ws", "80"}, {"wss", "443"}, {"HTTP", "80"}, {"file", ""}, {"file", "0"}, {"File", ""}, {"ldap", "389"}, {"urn", ""}, {"mailto", ""}};
            static const char* const HS[] = {"example.com", "www.example.com", "localhost", "EXAMPLE.com", "127.0.0.1", "[::1]", "h", ""};
            static const char* const PS[] = {"", "/", "/index.html", "/a/b", "/a/c", "/a/b/", "/a/b/c/d", "/etc/hosts", "/etc/passwd", "/C:/a", "/C:/b/c", "/~user/", "//srv/share/x", "a/b", "ISBN:1", "isbn:2", "u@h"};
            const auto& w = W[r.below(12)]; const char* h = HS[r.below(8)];
            auto mk = [&](const char* host) { Str t = w.scheme; t += ':'; int ak = r.chance(1, 4) ? (int)r.range(1, 2) : 0; Str path = PS[r.below(17)];
                if (ak == 0) { t += "//"; t += host; int pk = (int)r.below(4); if (pk == 1) { t += ':'; t += w.port; } else if (pk == 2) t += ':'; if (!path.empty() && path[0] != '/') path = "/" + path; }
                else if (ak == 1) { t += "//"; if (!path.empty() && path[0] != '/') path = "/" + path; }
                else if (path.size() >= 2 && path[0] == '/' && path[1] == '/') path = path.substr(1);
                return t + path; };
            S = mk(h); B = mk(r.chance(1, 6) ? HS[r.below(8)] : h);
            gen = "well-known";
        }
        if (r.chance(1, 12)) {      // authority comparison per host kind: same address spelled differently, one byte / one letter different, look-alikes of another kind
            static const char* const HG[][6] = {{"1.2.3.4", "1.2.3.5", "1.2.4.4", "2.2.3.4", "1.2.3.04", "1.2.3.4"}, {"[::1]", "[0:0:0:0:0:0:0:1]", "[::2]", "[1::1]", "[::0.0.0.1]", "[::1:0:1]"},
                {"[1:2:3:4:5:6:7:8]", "[1:2:3:4:5:6:0.7.0.8]", "[1:2:3:4:5:6:7:9]", "[0001:2:3:4:5:6:7:8]", "[1:2:3:4:5:6:7:8]", "[2:2:3:4:5:6:7:8]"}, {"[v1.x]", "[V1.x]", "[v1.X]", "v1.x", "[v2.x]", "[v1.x]"},
                {"h", "H", "h%41", "hA", "h.", "h"}, {"1.2.3.4", "[::1.2.3.4]", "[v4.1.2.3.4]", "1.2.3.4.", "1.2.3", "01.2.3.4"}};
            static const char* const UP[] = {"", "u@", "U@", "@", ":@", "u:p@"}; static const char* const PT[] = {"", ":", ":1", ":01", ":2", ":1"};
            static const char* const PA[] = {"", "/", "/a/b/c", "/a/b/d", "/a/b", "/a/b/", "/a/x/c", "//a"};
            const char* const* g = HG[r.below(6)]; int w = (int)r.below(4);
            S = Str("s://") + (w == 1 ? UP[r.below(6)] : "u@") + g[r.below(6)] + (w == 2 ? PT[r.below(6)] : ":1") + PA[r.below(8)];
            B = Str("s://") + (w == 1 ? UP[r.below(6)] : "u@") + g[r.below(6)] + (w == 2 ? PT[r.below(6)] : ":1") + PA[r.below(8)];
            gen = "hostkinds";
        }
        if (r.chance(1, 25)) {      // one component of the base is the source's plus 256*m characters (a length kept in 8 or 16 bits compares them equal),
                                    // or differs from it only in the letter case of a hex digit inside a triplet
            static const size_t PAD[] = {256, 512, 65536, 255, 257, 1}; Str pad(PAD[r.below(6)], 'a'); int w = (int)r.below(6);
            Str u = "joe", h = "host", pt = "8", d = "dir%7Euser", q = "k";
            Str u2 = u, h2 = h, pt2 = pt, d2 = d, q2 = q;
            switch (w) { case 0: u2 += pad; break; case 1: h2 += pad; break; case 2: pt2 += Str(pad.size(), '0'); break; case 3: d2 += pad; break; case 4: q2 += pad; break; default: d2 = "dir%7euser"; break; }
            static const char* const TL[] = {"/x", "/pub/x", "", "/", "/pub/", "/y/z"};
            S = "s://" + u + "@" + h + ":" + pt + "/" + d + TL[r.below(6)] + "?" + q; B = "s://" + u2 + "@" + h2 + ":" + pt2 + "/" + d2 + TL[r.below(6)] + "?" + q2;
            if (r.coin()) std::swap(S, B);
            gen = "length-mod-256";
        }
        if (r.chance(1, 20)) {      // window parses: one text, two end points
            static const char* const WT[] = {"s://user@host:8080/dir/file.ext?query#frag", "s://h/a/b/cde", "s://1.2.3.44:80/x", "s://[::1]:8/pq", "s:/a/bb/ccc", "s:a/b/cd?q", "s://host/a/b/c/"};
            Str t = r.coin() ? Str(WT[r.below(7)]) : gen_abs_base(r); size_t e; if (!dfa_uriref(t, &e) || !split(t).hasScheme) t = WT[0];
            Str pre = t; for (int tries = 0; tries < 30; tries++) { size_t m = 3 + r.below((uint32_t)(t.size() > 3 ? t.size() - 2 : 1)); if (m > t.size()) m = t.size(); Str q = t.substr(0, m); if (dfa_uriref(q, &e) && split(q).hasScheme) { pre = q; break; } }
            if (r.coin()) { S = t; B = pre; } else { S = pre; B = t; }
            gen = "window";
        }
        if (r.chance(1, 50)) S = gen_uri(r);       // may be relative: error-code clause
    }
    c.count(Str("gen_") + gen);
    run<ApiA>(c, S, B, gen);
    if (idx % 3 == 0) run<ApiW>(c, S, B, gen);
    if (idx % 5000 == 11) c.sample(gen, esc(S) + " relative to " + esc(B));
}
static void fuzz_one(Ctx& c, const unsigned char* d, size_t n) {
    if (n > 400) n = 400; Str S, B; fuzz_split2(d, n, &S, &B);
    run<ApiA>(c, S, B, "fuzz"); if (n & 1) run<ApiW>(c, S, B, "fuzz");
}
static Monitor mon = {"shorten", "C10: reference creation is the inverse of resolution (round trip via library and model)", "C10", ncases, run_case, nullptr, fuzz_one};
VF_REGISTER(mon);
}
