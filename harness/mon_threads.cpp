// Monitor "threads": C20 -- many threads call the library at once on private outputs and shared
// read-only inputs. Oracles: ThreadSanitizer (tsan build), per-call results equal to the single-thread
// results, shared inputs bit-for-bit unchanged, and (so build) the library's own writable segments are
// write-protected for the whole workload, so any store into library static storage faults.
#include "vf_obj.hpp"
#include "vf_gen.hpp"
#include <pthread.h>
#include <sched.h>
#include <unistd.h>
#include <time.h>
#include <link.h>
#include <sys/mman.h>
#include <atomic>
#include <cerrno>
#include <memory>
#include <algorithm>

using namespace vf;
namespace {

static uint64_t ncases(Ctx& c) { return (uint64_t)c.param_int("rounds", c.tier == "thorough" ? 64 : 8); }

// ---- write protection of the library's writable segments (so build only)
struct Seg { char* lo; size_t len; };
static std::vector<Seg> g_libsegs; static Str g_libname;
static int phdr_cb(struct dl_phdr_info* info, size_t, void*) {
    if (!info->dlpi_name || !strstr(info->dlpi_name, "liburiparser_v")) return 0;
    g_libname = info->dlpi_name;
    size_t ps = (size_t)sysconf(_SC_PAGESIZE);
    for (int i = 0; i < info->dlpi_phnum; i++) {
        const ElfW(Phdr)& ph = info->dlpi_phdr[i];
        if (ph.p_type != PT_LOAD || !(ph.p_flags & PF_W)) continue;
        uintptr_t lo = (info->dlpi_addr + ph.p_vaddr) & ~(ps - 1), hi = (info->dlpi_addr + ph.p_vaddr + ph.p_memsz + ps - 1) & ~(ps - 1);
        g_libsegs.push_back(Seg{(char*)lo, hi - lo});
    }
    return 0;
}
static bool protect_library_data(bool on) {
    if (g_libsegs.empty() && g_libname.empty()) dl_iterate_phdr(phdr_cb, nullptr);
    for (auto& s : g_libsegs) if (mprotect(s.lo, s.len, on ? PROT_READ : (PROT_READ | PROT_WRITE)) != 0) return false;
    return !g_libsegs.empty();
}

static inline uint64_t now_ns() { struct timespec ts; clock_gettime(CLOCK_MONOTONIC, &ts); return (uint64_t)ts.tv_sec * 1000000000ull + (uint64_t)ts.tv_nsec; }

enum Op { O_ADDBASE, O_REMOVEBASE, O_EQUALS, O_TOSTRING, O_MASKREQ, O_PARSE_NORM, O_COMPOSE, O_DISSECT, O_ESCAPE, O_FILE, O_IP4, O_PARSE_OWNER, O_PARSE_TEXT, O_TESTMM, O_COMPLETE, O_NOPS };
static const char* const OPN[] = {"addBase", "removeBase", "equals", "toString", "maskRequired", "parse+normalize", "composeQuery", "dissectQuery", "escape", "filename", "ip4", "parse+makeOwner", "parse(errorPos=NULL)", "testMemoryManager(shared)"};

struct Rec { uint64_t t0, t1; uint16_t op; uint16_t i, j; uint32_t arg; uint64_t result; bool faulted; };

// Read-only arena: every shared input (URI structs, their segment nodes, address blocks and text, the shared strings and
// query lists) is deep-copied into one mapping that is PROT_READ while the threads run. A store into a shared input -- even
// of the value that is already there, which no snapshot can see -- faults deterministically, whatever the schedule.
struct Arena {
    char* base = nullptr; size_t cap = 0, used = 0; bool ro = false;
    explicit Arena(size_t n) { size_t ps = (size_t)sysconf(_SC_PAGESIZE); cap = (n + ps - 1) & ~(ps - 1); base = (char*)mmap(nullptr, cap, PROT_READ | PROT_WRITE, MAP_PRIVATE | MAP_ANONYMOUS, -1, 0); if (base == MAP_FAILED) { base = nullptr; cap = 0; } }
    ~Arena() { if (base) munmap(base, cap); }
    Arena(const Arena&) = delete;
    void* alloc(size_t n, size_t align = 16) { size_t o = (used + align - 1) & ~(align - 1); if (!base || o + n > cap) return nullptr; used = o + n; return base + o; }
    bool protect(bool on) { if (!base) return false; ro = on; return mprotect(base, cap, on ? PROT_READ : (PROT_READ | PROT_WRITE)) == 0; }
    bool contains(const void* p) const { return base && (const char*)p >= base && (const char*)p < base + cap; }
};
static Arena* g_arena = nullptr;      // for crash attribution: a fault inside the arena is a store into a shared read-only input
static const char* explain_fault(const void* a) {
    if (g_arena && g_arena->contains(a)) return "[store-into-shared-read-only-input]";
    for (auto& s : g_libsegs) if ((const char*)a >= s.lo && (const char*)a < s.lo + s.len) return "[store-into-library-static-data]";
    return nullptr;
}
template <class X> const typename X::Char* arena_text(Arena& A, const typename X::Char* first, const typename X::Char* after, bool terminate = false) {
    size_t n = (size_t)(after - first); typename X::Char* d = (typename X::Char*)A.alloc((n + (terminate ? 1 : 0) + 1) * sizeof(typename X::Char), sizeof(typename X::Char));
    if (!d) return nullptr; if (n) memcpy(d, first, n * sizeof(typename X::Char)); d[n] = 0; return d;
}
template <class X> typename X::Uri* arena_clone(Arena& A, const typename X::Uri& u) {
    typedef typename X::Uri Uri; typedef typename X::Seg Seg; typedef typename X::Range Range;
    Uri* d = (Uri*)A.alloc(sizeof(Uri)); if (!d) return nullptr; memcpy(d, &u, sizeof(Uri));
    bool ok = true;
    auto cp = [&](const Range& r) { Range o; o.first = o.afterLast = nullptr; if (r.first) { size_t n = (size_t)(r.afterLast - r.first); o.first = arena_text<X>(A, r.first, r.afterLast); if (!o.first) ok = false; else o.afterLast = o.first + n; } return o; };
    d->scheme = cp(u.scheme); d->userInfo = cp(u.userInfo); d->hostText = cp(u.hostText); d->portText = cp(u.portText); d->query = cp(u.query); d->fragment = cp(u.fragment);
    if (u.hostData.ipFuture.first) { if (u.hostData.ipFuture.first == u.hostText.first && u.hostData.ipFuture.afterLast == u.hostText.afterLast) d->hostData.ipFuture = d->hostText; else d->hostData.ipFuture = cp(u.hostData.ipFuture); }
    if (u.hostData.ip4) { d->hostData.ip4 = (UriIp4*)A.alloc(sizeof(UriIp4)); if (d->hostData.ip4) memcpy(d->hostData.ip4, u.hostData.ip4, sizeof(UriIp4)); else ok = false; }
    if (u.hostData.ip6) { d->hostData.ip6 = (UriIp6*)A.alloc(sizeof(UriIp6)); if (d->hostData.ip6) memcpy(d->hostData.ip6, u.hostData.ip6, sizeof(UriIp6)); else ok = false; }
    d->pathHead = d->pathTail = nullptr; Seg* prev = nullptr;
    for (const Seg* s = u.pathHead; s && ok; s = s->next) { Seg* n = (Seg*)A.alloc(sizeof(Seg)); if (!n) { ok = false; break; } memcpy(n, s, sizeof(Seg)); n->text = cp(s->text); n->next = nullptr; if (prev) prev->next = n; else d->pathHead = n; prev = n; d->pathTail = n; }
    return ok ? d : nullptr;
}

// A complete memory manager shared by several threads: thread-safe callbacks (the C library's allocator plus atomic counters); the
// UriMemoryManager structure itself lives in the read-only arena, so a call that writes to the manager it was given -- even to put
// the same pointers back later -- faults.
struct SharedMgr {
    UriMemoryManager mm; std::atomic<uint64_t> allocs{0}, frees{0};
    static void* s_malloc(UriMemoryManager* m, size_t n) { ((SharedMgr*)m->userData)->allocs++; return raw_malloc(n ? n : 1); }
    static void* s_calloc(UriMemoryManager* m, size_t a, size_t b) { if (a && b > (size_t)-1 / a) { errno = ENOMEM; return nullptr; } ((SharedMgr*)m->userData)->allocs++; void* p = raw_malloc(a * b ? a * b : 1); if (p) memset(p, 0, a * b); return p; }
    static void* s_realloc(UriMemoryManager* m, void* p, size_t n) { SharedMgr* s = (SharedMgr*)m->userData; if (!p) { s->allocs++; return raw_malloc(n ? n : 1); } if (!n) { s->frees++; raw_free(p); return nullptr; } return realloc(p, n); }
    static void* s_reallocarray(UriMemoryManager* m, void* p, size_t a, size_t b) { if (a && b > (size_t)-1 / a) { errno = ENOMEM; return nullptr; } return s_realloc(m, p, a * b); }
    static void s_free(UriMemoryManager* m, void* p) { if (p) { ((SharedMgr*)m->userData)->frees++; raw_free(p); } }
    SharedMgr() { mm.malloc = s_malloc; mm.calloc = s_calloc; mm.realloc = s_realloc; mm.reallocarray = s_reallocarray; mm.free = s_free; mm.userData = this; }
};

template <class X> struct Shared {
    typedef typename X::Char Char; typedef typename X::QList QList;
    SharedMgr smgr; UriMemoryManager* roMgr = nullptr; UriMemoryManager* roBackend[3] = {nullptr, nullptr, nullptr};     // backends with malloc+free / +realloc / all but reallocarray
    std::vector<std::unique_ptr<UriBox<X>>> uris; std::vector<Str> snaps;
    std::unique_ptr<Arena> arena; std::vector<typename X::Uri*> roUris; std::vector<const Char*> roText; std::vector<size_t> roTextLen;
    std::vector<const Char*> roStrings; std::vector<size_t> roStringLen; std::vector<QList*> roLists;
    // all host kinds and component shapes are always present in the shared pool, whatever the random part produces
    static const char* fixed(int i) { static const char* F[] = {"http://[v7.Host]:8/P/%7e?%41#%61", "HTTP://u%41@EX%41MPLE.com:80/a/./b/../c", "s://[::FFFF:1.2.3.4]/x/y", "s://1.2.3.4/p/q?k=v", "../A/%2e/b:c?q", "a:b/c/../d"}; return F[i]; }
    bool freeze() {
        arena.reset(new Arena((size_t)4 << 20)); Arena& A = *arena; bool ok = true;
        for (auto& b : uris) { typename X::Uri* d = arena_clone<X>(A, b->u); const Char* t = b->text ? arena_text<X>(A, b->text, b->text + b->len) : nullptr; if (!d) ok = false; roUris.push_back(d); roText.push_back(t); roTextLen.push_back(b->len); }
        for (auto& w : strings) { const Char* t = arena_text<X>(A, w.data(), w.data() + w.size(), true); if (!t) ok = false; roStrings.push_back(t); roStringLen.push_back(w.size()); }
        for (auto& L : lists) { QList* nodes = (QList*)A.alloc(sizeof(QList) * L.size()); if (!nodes) { ok = false; roLists.push_back(nullptr); continue; }
            for (size_t k = 0; k < L.size(); k++) { nodes[k].key = arena_text<X>(A, L[k].key, L[k].key + xstrlen<X>(L[k].key), true); nodes[k].value = L[k].value ? arena_text<X>(A, L[k].value, L[k].value + xstrlen<X>(L[k].value), true) : nullptr; nodes[k].next = k + 1 < L.size() ? &nodes[k + 1] : nullptr; if (!nodes[k].key) ok = false; }
            roLists.push_back(nodes); }
        roMgr = (UriMemoryManager*)A.alloc(sizeof(UriMemoryManager)); if (roMgr) memcpy(roMgr, &smgr.mm, sizeof(UriMemoryManager)); else ok = false;
        for (int k = 0; k < 3; k++) { roBackend[k] = (UriMemoryManager*)A.alloc(sizeof(UriMemoryManager)); if (!roBackend[k]) { ok = false; break; } memcpy(roBackend[k], &smgr.mm, sizeof(UriMemoryManager));
            roBackend[k]->reallocarray = nullptr; if (k < 2) roBackend[k]->calloc = nullptr; if (k < 1) roBackend[k]->realloc = nullptr; }
        if (!ok) return false;
        for (size_t i = 0; i < roUris.size(); i++) snaps[i] = deep_snapshot<X>(*roUris[i]);
        g_arena = arena.get(); crash_explain = explain_fault;
        return A.protect(true);
    }
    void thaw() { if (arena) arena->protect(false); g_arena = nullptr; }
    std::vector<typename X::S> strings;                     // NUL-terminated shared strings (queries, filenames, text to escape)
    std::vector<std::vector<QList>> lists; std::vector<std::vector<typename X::S>> listText;
    void build(Rng& r) {
        for (int i = 0; i < 12; i++) { std::unique_ptr<UriBox<X>> b(new UriBox<X>()); if (b->parse(fixed(i % 6)) != URI_SUCCESS) continue; if (i >= 6) b->make_owner(); snaps.push_back(Str()); uris.push_back(std::move(b)); }
        for (int i = 0; i < 24; i++) {
            std::unique_ptr<UriBox<X>> b(new UriBox<X>()); Str s;
            for (int t = 0; t < 40; t++) { UriGenOpts o; o.dotHeavy = r.coin(); o.maxSegs = 6; o.longSeg = false; s = (i % 3 == 0) ? gen_abs_base(r) : gen_uri(r, o); if (i % 3 == 1) { o.scheme = 1; s = gen_uri(r, o); } size_t e; if (dfa_uriref(s, &e)) break; s = "a://h/p/q"; }
            if (b->parse(s) != URI_SUCCESS) continue;
            if (i % 2) b->make_owner();
            snaps.push_back(deep_snapshot<X>(b->u)); uris.push_back(std::move(b));
        }
        for (int i = 0; i < 12; i++) { Str s = i % 3 == 0 ? gen_filename_unix(r) : i % 3 == 1 ? gen_filename_win(r) : gen_string(r, 30); for (auto& ch : s) if (!ch) ch = 'x'; if (i % 4 == 3) { s = gen_string(r, 8) + "=" + gen_string(r, 8) + "&" + gen_string(r, 5); for (auto& ch : s) if (!ch) ch = 'x'; } typename X::S w = widen<X>(s); strings.push_back(w); }
        strings.push_back(widen<X>("1.2.3.4")); strings.push_back(widen<X>("255.255.255.256"));
        for (int i = 0; i < 6; i++) {
            int n = r.range(1, 5); std::vector<typename X::S> txt; for (int k = 0; k < 2 * n; k++) { Str s = gen_string(r, 8); for (auto& ch : s) if (!ch) ch = 'x'; txt.push_back(widen<X>(s)); }
            listText.push_back(txt);
        }
        for (size_t i = 0; i < listText.size(); i++) { size_t n = listText[i].size() / 2; std::vector<QList> nodes(n); for (size_t k = 0; k < n; k++) { nodes[k].key = listText[i][2 * k].c_str(); nodes[k].value = (k % 3 == 2) ? nullptr : listText[i][2 * k + 1].c_str(); nodes[k].next = k + 1 < n ? &nodes[k + 1] : nullptr; } lists.push_back(nodes); }
        for (size_t i = 0; i < lists.size(); i++) for (size_t k = 0; k + 1 < lists[i].size(); k++) lists[i][k].next = &lists[i][k + 1];
    }
};

// one call; returns a hash of everything the call returned
template <class X> uint64_t do_call(Shared<X>& sh, int op, unsigned i, unsigned j, unsigned arg, UriMemoryManager* mm) {
    typedef typename X::Char Char; typedef typename X::Uri Uri; typedef typename X::QList QListT;
    Str out;
    struct SV { const Char* p; size_t n; const Char* data() const { return p; } const Char* c_str() const { return p; } size_t size() const { return n; } };
    auto U = [&](unsigned k) -> const Uri& { return *sh.roUris[k % sh.roUris.size()]; };
    auto S = [&](unsigned k) -> SV { size_t q = k % sh.roStrings.size(); return SV{sh.roStrings[q], sh.roStringLen[q]}; };
    auto text_of = [&](const Uri& u) { int need = -1; if (X::ToStringCharsRequired(&u, &need) != URI_SUCCESS || need < 0) return Str("<err>"); std::vector<Char> b((size_t)need + 1); int w = 0; if (X::ToString(b.data(), &u, need + 1, &w) != URI_SUCCESS) return Str("<err>"); return narrow<X>(b.data(), b.data() + need); };
    switch (op) {
    case O_ADDBASE: { Uri d; int rc = mm ? X::AddBaseUriExMm(&d, &U(i), &U(j), (UriResolutionOptions)(arg & 1), mm) : X::AddBaseUriEx(&d, &U(i), &U(j), (UriResolutionOptions)(arg & 1)); out = fmt("%d:", rc); if (rc == 0) { out += text_of(d); if (mm) X::FreeUriMembersMm(&d, mm); else X::FreeUriMembers(&d); } break; }
    case O_REMOVEBASE: { Uri d; int rc = mm ? X::RemoveBaseUriMm(&d, &U(i), &U(j), (int)(arg & 1), mm) : X::RemoveBaseUri(&d, &U(i), &U(j), (int)(arg & 1)); out = fmt("%d:", rc); if (rc == 0) { out += text_of(d); if (mm) X::FreeUriMembersMm(&d, mm); else X::FreeUriMembers(&d); } break; }
    case O_EQUALS: out = fmt("%d", (int)X::EqualsUri(&U(i), &U(j))); break;
    case O_TOSTRING: out = text_of(U(i)); break;
    case O_MASKREQ: { unsigned m2 = 77; int rc = X::NormalizeSyntaxMaskRequiredEx(&U(i), &m2); out = fmt("%u/%u/%d", X::NormalizeSyntaxMaskRequired(&U(i)), m2, rc); break; }
    case O_PARSE_NORM: case O_PARSE_OWNER: {
        size_t q = i % sh.roText.size(); const Char* stext = sh.roText[q]; size_t slen = sh.roTextLen[q]; if (!stext) { out = "<no text>"; break; }
        Uri u; const Char* ep; int rc = mm ? X::ParseSingleUriExMm(&u, stext, stext + slen, &ep, mm) : X::ParseSingleUriEx(&u, stext, stext + slen, &ep);
        out = fmt("%d:", rc); if (rc != 0) break;
        int r2 = op == O_PARSE_NORM ? (mm ? X::NormalizeSyntaxExMm(&u, arg & 63, mm) : X::NormalizeSyntaxEx(&u, arg & 63)) : (mm ? X::MakeOwnerMm(&u, mm) : X::MakeOwner(&u));
        out += fmt("%d:", r2) + text_of(u);
        if (mm) X::FreeUriMembersMm(&u, mm); else X::FreeUriMembers(&u);
        break; }
    case O_COMPOSE: { struct LV { const QListT* p; const QListT* data() const { return p; } }; LV L{sh.roLists[i % sh.roLists.size()]}; Char* o = nullptr; int rc = mm ? X::ComposeQueryMallocExMm(&o, L.data(), arg & 1, (arg >> 1) & 1, mm) : X::ComposeQueryMallocEx(&o, L.data(), arg & 1, (arg >> 1) & 1); out = fmt("%d:", rc); if (rc == 0) { out += narrow<X>(o, o + xstrlen<X>(o)); if (mm) mm->free(mm, o); else free(o); }
        int req = -1; X::ComposeQueryCharsRequiredEx(L.data(), &req, arg & 1, (arg >> 1) & 1); out += fmt("/%d", req); break; }
    case O_DISSECT: { SV q = S(i); typename X::QList* l = nullptr; int cnt = -1; int rc = mm ? X::DissectQueryMallocExMm(&l, &cnt, q.data(), q.data() + q.size(), arg & 1, (UriBreakConversion)((arg >> 1) & 3), mm) : X::DissectQueryMallocEx(&l, &cnt, q.data(), q.data() + q.size(), arg & 1, (UriBreakConversion)((arg >> 1) & 3));
        out = fmt("%d:%d:", rc, cnt); if (rc == 0) { for (auto* p = l; p; p = p->next) { out += narrow<X>(p->key, p->key + xstrlen<X>(p->key)); out += '='; if (p->value) out += narrow<X>(p->value, p->value + xstrlen<X>(p->value)); out += '&'; } if (mm) X::FreeQueryListMm(l, mm); else X::FreeQueryList(l); } break; }
    case O_ESCAPE: { SV s = S(i); std::vector<Char> o(6 * s.size() + 1); Char* e = X::EscapeEx(s.data(), s.data() + s.size(), o.data(), arg & 1, (arg >> 1) & 1); out = narrow<X>(o.data(), e); const Char* e2 = X::UnescapeInPlaceEx(o.data(), arg & 1, (UriBreakConversion)((arg >> 2) & 3)); out += '|'; out += narrow<X>(o.data(), e2); break; }
    case O_FILE: { SV s = S(i); std::vector<Char> o(8 + 3 * s.size() + 1), b(8 + 3 * s.size() + 4); int rc = (arg & 1) ? X::UnixFilenameToUriString(s.c_str(), o.data()) : X::WindowsFilenameToUriString(s.c_str(), o.data()); int r2 = (arg & 1) ? X::UriStringToUnixFilename(o.data(), b.data()) : X::UriStringToWindowsFilename(o.data(), b.data());
        out = fmt("%d:%d:", rc, r2) + narrow<X>(o.data(), o.data() + xstrlen<X>(o.data())) + "|" + narrow<X>(b.data(), b.data() + xstrlen<X>(b.data())); break; }
    case O_PARSE_TEXT: {   // arbitrary shared text (mostly not a URI: the failing exits), optional error position absent
        SV s = S(i); Uri u; int rc = (arg & 1) ? X::ParseSingleUriEx(&u, s.data(), s.data() + s.size(), nullptr) : mm ? X::ParseSingleUriExMm(&u, s.data(), s.data() + s.size(), nullptr, mm) : X::ParseSingleUri(&u, s.c_str(), nullptr);
        out = fmt("%d", rc); if (rc == 0) { out += text_of(u); } if (mm && !(arg & 1)) X::FreeUriMembersMm(&u, mm); else X::FreeUriMembers(&u); break; }
    case O_COMPLETE: {     // every thread completes a manager of its own over ONE shared backend (an input: the library only reads it), then uses it
        UriMemoryManager own; memset(&own, 0, sizeof own); int rc = uriCompleteMemoryManager(&own, sh.roBackend[arg % 3]); out = fmt("%d", rc);
        if (rc == URI_SUCCESS) { unsigned char* p = (unsigned char*)own.calloc(&own, 3, 5 + (arg & 7)); bool z = p != nullptr; for (int k = 0; p && k < 15; k++) z = z && p[k] == 0; if (p) memset(p, 0x5A, 15);
            unsigned char* q = p ? (unsigned char*)own.reallocarray(&own, p, 7, 9) : nullptr; bool keep = q != nullptr; for (int k = 0; q && k < 15; k++) keep = keep && q[k] == 0x5A;
            void* m2 = own.malloc(&own, 11); void* m3 = own.realloc(&own, m2, 400); own.free(&own, m3 ? m3 : m2); own.free(&own, q ? q : p);
            size_t q2 = i % sh.roText.size(); const Char* st = sh.roText[q2]; static const Char none[1] = {0}; if (!st) st = none;
            Uri u; int r2 = X::ParseSingleUriExMm(&u, st, st + (sh.roText[q2] ? sh.roTextLen[q2] : 0), nullptr, &own); if (r2 == 0) { int r3 = X::MakeOwnerMm(&u, &own); out += fmt(":%d", r3); } X::FreeUriMembersMm(&u, &own);
            out += fmt(":%d%d:%d", (int)z, (int)keep, r2); }
        break; }
    case O_TESTMM: { int rc = uriTestMemoryManager(sh.roMgr); out = fmt("%d", rc); break; }      // the library's self test on the manager other threads are using right now
    default: { SV s = S(i); unsigned char oct[4] = {0, 0, 0, 0}; int rc = X::ParseIpFourAddress(oct, s.data(), s.data() + s.size()); out = fmt("%d:%u.%u.%u.%u", rc, oct[0], oct[1], oct[2], oct[3]); break; }
    }
    return hash_str(out);
}

template <class X> struct ThreadArg { Shared<X>* sh; int tid; uint64_t seed; int iters; bool customMgr; std::vector<Rec> recs; std::atomic<int>* go; uint64_t ledgerLeak = 0, ledgerBad = 0, faultedCalls = 0, sharedReleased = 0; Str sharedReleasedNote; };
template <class X> void* thread_main(void* p) {
    ThreadArg<X>* a = (ThreadArg<X>*)p; Rng r(a->seed);
    Ledger led; led.yield_in_cb = true; led.yield_state = a->seed | 1;
    bool sharedMgr = (a->tid % 4) == 3;         // every fourth thread works under the manager shared with its like
    UriMemoryManager* mm = sharedMgr ? a->sh->roMgr : a->customMgr ? led.mgr() : nullptr;
    a->recs.reserve((size_t)a->iters);
    while (a->go->load() == 0) sched_yield();
    if (a->tid & 1) { struct timespec ts = {0, (long)(r.below(200000))}; nanosleep(&ts, nullptr); }     // staggered start
    for (int it = 0; it < a->iters; it++) {
        Rec rec; rec.op = (uint16_t)r.below(O_NOPS); rec.i = (uint16_t)r.below(6); rec.j = (uint16_t)r.below(6);      // few shared objects: maximise sharing
        if (r.chance(1, 4)) { rec.i = (uint16_t)r.below(64); rec.j = (uint16_t)r.below(64); }
        rec.arg = r.below(256);
        // now and then this thread's own manager refuses a request (once, or from there on) during the call: the failure paths run
        // concurrently with other threads' calls on the same shared inputs; such a call's result is not compared, but it must not
        // store into a shared input (read-only arena) nor hand a piece of one to the manager's free function
        rec.faulted = false;
        if (mm && !sharedMgr && r.chance(1, 6)) led.arm((long)r.range(1, 12), r.coin());
        rec.t0 = now_ns(); rec.result = do_call<X>(*a->sh, rec.op, rec.i, rec.j, rec.arg, mm); rec.t1 = now_ns();
        if (mm && !sharedMgr) { if (led.failed) { rec.faulted = true; a->faultedCalls++; } led.fail_at = 0; led.fail_from = false; led.failed = 0;
            if (led.bad_free && g_arena && g_arena->contains(led.last_bad_ptr)) { a->sharedReleased++; if (a->sharedReleasedNote.empty()) a->sharedReleasedNote = fmt("op=%s i=%u j=%u arg=%u: %s", OPN[rec.op], rec.i, rec.j, rec.arg, led.bad_free_note.c_str()); led.bad_free = 0; led.bad_free_note.clear(); }
            if (rec.faulted && led.outstanding()) led.release_all(); }       // leaks on failure paths are C14's business, not this monitor's
        a->recs.push_back(rec);
        if (r.chance(1, 64)) sched_yield();
    }
    a->ledgerLeak = led.outstanding(); a->ledgerBad = led.bad_free; led.release_all();
    return nullptr;
}

template <class X> void round(Ctx& c, uint64_t idx) {
    Rng& r = c.rng;
    static const int TS[] = {2, 4, 8, 16}; int T = TS[idx % 4];
    int iters = (int)c.param_int("iters", 30000) / T * 2;
    Shared<X> sh; sh.build(r);
    if (sh.uris.size() < 6) { c.count("round_skipped"); return; }
    if (!sh.freeze()) { c.count("shared_input_arena_unavailable"); sh.thaw(); return; }
    c.count("shared_input_bytes_read_only", sh.arena->used);
    bool prot = false;
    if (c.build == "so") { prot = protect_library_data(true); if (!prot) c.count("library_data_protection_unavailable"); else c.count("library_writable_bytes_protected", [&] { size_t n = 0; for (auto& s : g_libsegs) n += s.len; return n; }()); }
    std::atomic<int> go(0);
    std::vector<std::unique_ptr<ThreadArg<X>>> args; std::vector<pthread_t> th((size_t)T);
    for (int t = 0; t < T; t++) { std::unique_ptr<ThreadArg<X>> a(new ThreadArg<X>()); a->sh = &sh; a->tid = t; a->seed = mix64(c.seed ^ (idx << 8) ^ (uint64_t)t); a->iters = iters; a->customMgr = (t % 3) != 0; a->go = &go; args.push_back(std::move(a)); }
    c.note(fmt("%s threads round T=%d iters=%d", X::tag(), T, iters));
    int ncpu = (int)sysconf(_SC_NPROCESSORS_ONLN);
    for (int t = 0; t < T; t++) {
        pthread_create(&th[(size_t)t], nullptr, thread_main<X>, args[(size_t)t].get());
        cpu_set_t set; CPU_ZERO(&set); CPU_SET((int)((r.below(1000) + (unsigned)t) % (unsigned)ncpu), &set); if (r.coin()) pthread_setaffinity_np(th[(size_t)t], sizeof set, &set);
    }
    go.store(1);
    for (int t = 0; t < T; t++) pthread_join(th[(size_t)t], nullptr);
    if (prot) protect_library_data(false);
    sh.thaw();
    // (1) per-call results equal to single-thread results
    std::map<uint64_t, uint64_t> expect; Ledger led; uint64_t mism = 0;
    for (auto& a : args) {
        if (a->ledgerLeak) c.violation("C13", fmt("threads/%s/leak-in-thread-manager", X::tag()), fmt("%llu block(s)", (unsigned long long)a->ledgerLeak));
        if (a->ledgerBad) c.violation("C13", fmt("threads/%s/bad-free-in-thread-manager", X::tag()), "");
        if (a->sharedReleased) c.violation("C20", fmt("threads/%s/shared-input-passed-to-free", X::tag()), fmt("%llu time(s); first: %s", (unsigned long long)a->sharedReleased, a->sharedReleasedNote.c_str()));
        c.count("calls_with_injected_allocation_failure", a->faultedCalls);
        for (auto& rec : a->recs) {
            if (rec.faulted) continue;
            uint64_t key = ((uint64_t)rec.op << 48) | ((uint64_t)rec.i << 32) | ((uint64_t)rec.j << 16) | rec.arg;
            auto it = expect.find(key);
            if (it == expect.end()) it = expect.emplace(key, do_call<X>(sh, rec.op, rec.i, rec.j, rec.arg, nullptr)).first;
            c.evaluations++;
            if (it->second != rec.result) { if (mism++ < 3) c.violation("C20", fmt("threads/%s/result-differs-from-single-thread/%s", X::tag(), OPN[rec.op]), fmt("op=%s i=%u j=%u arg=%u T=%d", OPN[rec.op], rec.i, rec.j, rec.arg, T)); }
        }
    }
    if (sh.smgr.allocs.load() != sh.smgr.frees.load()) c.violation("C13", fmt("threads/%s/shared-manager-unbalanced", X::tag()), fmt("allocations %llu, releases %llu", (unsigned long long)sh.smgr.allocs.load(), (unsigned long long)sh.smgr.frees.load()));
    if (memcmp(sh.roMgr, &sh.smgr.mm, sizeof(UriMemoryManager)) != 0) c.violation("C20", fmt("threads/%s/shared-manager-structure-modified", X::tag()), "");
    // (2) shared inputs unchanged
    for (size_t i = 0; i < sh.roUris.size(); i++) if (deep_snapshot<X>(*sh.roUris[i]) != sh.snaps[i]) c.violation("C20", fmt("threads/%s/shared-input-modified", X::tag()), fmt("shared uri %zu (\"%s\")", i, esc(sh.uris[i]->srcText).c_str()));
    // (3) which interleavings were observed: overlapping call pairs on the same shared object
    struct Iv { uint64_t t0, t1; uint16_t op; int tid; };
    std::map<unsigned, std::vector<Iv>> byObj;
    for (auto& a : args) for (auto& rec : a->recs) { unsigned space = rec.op <= O_MASKREQ || rec.op == O_PARSE_NORM || rec.op == O_PARSE_OWNER ? 0 : rec.op == O_COMPOSE ? 1 : 2; size_t mod = space == 0 ? sh.uris.size() : space == 1 ? sh.lists.size() : sh.strings.size();
        byObj[space * 1000 + rec.i % (unsigned)mod].push_back(Iv{rec.t0, rec.t1, rec.op, a->tid}); if (rec.op <= O_EQUALS) byObj[rec.j % (unsigned)sh.uris.size()].push_back(Iv{rec.t0, rec.t1, rec.op, a->tid}); }
    uint64_t overlaps = 0; std::set<std::pair<int, int>> pairsSeen;
    for (auto& kv : byObj) {
        auto& v = kv.second; std::sort(v.begin(), v.end(), [](const Iv& x, const Iv& y) { return x.t0 < y.t0; });
        std::vector<Iv> active;
        for (auto& iv : v) {
            active.erase(std::remove_if(active.begin(), active.end(), [&](const Iv& x) { return x.t1 <= iv.t0; }), active.end());
            for (auto& x : active) if (x.tid != iv.tid) { overlaps++; pairsSeen.insert({std::min(x.op, iv.op), std::max(x.op, iv.op)}); }
            active.push_back(iv);
        }
    }
    c.count("overlapping_call_pairs_on_shared_object", overlaps);
    for (auto& p : pairsSeen) c.count(fmt("overlap_%s_x_%s", OPN[p.first], OPN[p.second]));
    c.count(fmt("rounds_T%d", T)); c.count("thread_calls", (uint64_t)T * (uint64_t)iters);
    c.distinct(hash_str(fmt("%llu-%d", (unsigned long long)idx, T)) ); c.distinct(overlaps + 1);
    if (idx < 4) c.sample("round", fmt("T=%d, %d calls per thread, %zu shared URIs (e.g. \"%s\"), %llu overlapping call pairs on shared objects, %zu distinct op pairs", T, iters, sh.uris.size(), esc(sh.uris[0]->srcText).c_str(), (unsigned long long)overlaps, pairsSeen.size()));
}

static void run_case(Ctx& c, uint64_t idx) { if (idx % 2) round<ApiW>(c, idx); else round<ApiA>(c, idx); }
static void finish(Ctx& c) {
    // symbol inventory evidence is produced by the driver (objdump); here: inconclusive if nothing overlapped
    if (c.counters["overlapping_call_pairs_on_shared_object"] == 0) c.count("no_overlap_observed");
}
static Monitor mon = {"threads", "C20: multi-thread stress on shared read-only inputs: results, shared inputs, TSan, write-protected library data", "C20", ncases, run_case, finish};
VF_REGISTER(mon);
}
