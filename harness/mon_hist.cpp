// Monitor "hist": random operation histories over a pool of URI objects.
//   C07: every produced object keeps its meaning when written and read back, structure well formed
//   C11: for library-produced objects, uriEqualsUri <=> identical recomposed text
//   C12: owned objects survive the release of everything they used to borrow from; const arguments unchanged
//   C13: every block goes through the object's manager and is returned; nothing bypasses a custom manager
#include "vf_obj.hpp"
#include "vf_gen.hpp"
#include <memory>

using namespace vf;
namespace {

static uint64_t ncases(Ctx& c) { return (uint64_t)c.param_int("histories", c.tier == "thorough" ? 3000000 : 60000); }

template <class X> struct Hist {
    typedef typename X::Char Char; typedef typename X::Uri Uri;
    struct TextBuf { Char* p; size_t n; ~TextBuf() { for (size_t i = 0; i < n; i++) p[i] = X::wid('!'); ::free(p); } };
    struct Slot {
        Uri u; bool live = false; int mgr = 2;                      // 0: ledger A, 1: ledger B, 2: default
        std::vector<std::shared_ptr<TextBuf>> texts;                // caller-supplied text this object may point into
        std::vector<int> pins;                                      // owner slots whose heap blocks this (non-owner) object points into
        int pinned = 0;                                             // number of live non-owner objects pointing into this object's blocks
        bool damaged = false;                                       // an in-place operation on it failed (out of memory) at some point: content unspecified from there on
        Str origin;
    };
    static const int K = 8;
    Slot s[K];
    Ledger led[2];
    Ctx* c; Str trace;

    UriMemoryManager* mm(int m) { return m < 2 ? led[m].mgr() : nullptr; }
    void log(const Str& e) { if (trace.size() < 1500) { trace += e; trace += "; "; } }

    void unpin(Slot& x) { for (int p : x.pins) s[p].pinned--; x.pins.clear(); }
    void release(int i) {
        Slot& x = s[i]; if (!x.live) return;
        { LibScope ls; if (x.mgr < 2) X::FreeUriMembersMm(&x.u, mm(x.mgr)); else X::FreeUriMembers(&x.u); }
        if (c->rng.chance(1, 4)) { LibScope ls; if (x.mgr < 2) X::FreeUriMembersMm(&x.u, mm(x.mgr)); else X::FreeUriMembers(&x.u); }   // freeing again is harmless
        x.live = false; unpin(x); x.texts.clear(); c->evaluations++;
    }
    Str text(int i) { Str t; if (to_string<X>(s[i].u, &t) != URI_SUCCESS) return "<tostring failed>"; return t; }

    void check_object(int i, const char* op) {
        c->attribute("C07");
        // An object on which an in-place operation once ran out of memory has unspecified content from there on (the library reverts
        // what it had duplicated to NULL: a port without a host, a path whose first segment now reads as a scheme ...), and so has
        // everything computed from it: such objects keep taking part in the history (memory safety, ledgers, independence of the source
        // are still watched) but their meaning is not judged.
        if (s[i].damaged) { c->count("objects_with_a_failed_operation_in_their_past"); return; }
        Str t; Str why = meaning_check<X>(s[i].u, &t);
        c->evaluations++;
        if (!why.empty()) {
            Str cls = why.substr(0, why.find(':') == Str::npos ? why.size() : why.find(':'));
            for (auto& ch : cls) if (ch == ' ') ch = '-';
            c->violation("C07", fmt("hist/%s/%s/%s", X::tag(), op, cls.c_str()), fmt("%s -> text=\"%s\" (%s) history: %s", s[i].origin.c_str(), esc(t).c_str(), why.c_str(), trace.c_str()));
        } else {
            c->count("objects_meaning_ok");
            // C11 on every produced object: it and the parse of its own text are two library-produced URIs with identical text, hence equal
            // (an operation that leaves a second representation of the same text -- a lone empty segment, a rootless list that starts
            // with an empty segment -- shows here at once, not only when the history happens to compare it)
            c->attribute("C11");
            UriBox<X> p; if (p.parse(t) == URI_SUCCESS) { int e1, e2; { LibScope ls; e1 = X::EqualsUri(&s[i].u, &p.u); e2 = X::EqualsUri(&p.u, &s[i].u); } c->evaluations += 2;
                if (!e1 || !e2) c->violation("C11", fmt("hist/%s/%s/produced-object-not-equal-to-parse-of-its-text", X::tag(), op), fmt("%s -> text=\"%s\" history: %s", s[i].origin.c_str(), esc(t).c_str(), trace.c_str()));
                else c->count("produced_equals_reparse"); }
            c->attribute("C07");
        }
        c->distinct(hash_str(t, hash_str(op)));
    }
    // after an object became owner: everything it borrowed from may go away
    void became_owner(int i, const char* op) {
        Slot& x = s[i];
        c->attribute("C12");
        Str before = text(i); Str snapBefore = read_uri<X>(x.u).c.describe();
        unpin(x); x.texts.clear();         // TextBuf destructors scribble and free buffers nobody else uses
        Str after = text(i); Str snapAfter = read_uri<X>(x.u).c.describe();
        if (before != after || snapBefore != snapAfter)
            c->violation("C12", fmt("hist/%s/%s/changed-after-source-release", X::tag(), op), fmt("%s before=\"%s\" after=\"%s\" history: %s", x.origin.c_str(), esc(before).c_str(), esc(after).c_str(), trace.c_str()));
        if (!x.u.owner) c->violation("C12", fmt("hist/%s/%s/owner-flag-not-set", X::tag(), op), x.origin);
        c->count("ownership_transfers_checked");
    }
    void inherit(Slot& d, const Slot& src, int srcIdx) {
        for (auto& t : src.texts) d.texts.push_back(t);
        for (int p : src.pins) { d.pins.push_back(p); s[p].pinned++; }
        if (src.u.owner) { d.pins.push_back(srcIdx); s[srcIdx].pinned++; }
    }
    int pick_live(bool needUnpinned) {
        int cand[K]; int n = 0;
        for (int i = 0; i < K; i++) if (s[i].live && (!needUnpinned || s[i].pinned == 0)) cand[n++] = i;
        return n ? cand[c->rng.below((uint32_t)n)] : -1;
    }
    int pick_dest() {       // a slot that may be overwritten
        int cand[K]; int n = 0;
        for (int i = 0; i < K; i++) if (!s[i].live) cand[n++] = i;
        if (n) return cand[c->rng.below((uint32_t)n)];
        int i = pick_live(true); if (i >= 0) release(i); return i;
    }

    void run(Ctx& ctx) {
        c = &ctx; Rng& r = ctx.rng; trace.clear();
        LibcWatch& lw = libc_watch(); lw.clear_live();
        int steps = r.chance(1, 12) ? r.range(13, 40) : r.range(3, 12);
        for (int st = 0; st < steps; st++) {
            int op = r.below(10);
            c->stage((uint64_t)st * 16 + (uint64_t)op);
            c->attribute("C07");
            c->note(Str(X::tag()) + " hist: " + (trace.size() > 380 ? trace.substr(trace.size() - 380) : trace));
            if (op <= 2 || pick_live(false) < 0) {           // parse
                int d = pick_dest(); if (d < 0) continue;
                UriGenOpts o; o.dotHeavy = r.chance(2, 3); o.maxSegs = 5; o.longSeg = false;
                Str t = gen_uri(r, o); size_t e; if (!dfa_uriref(t, &e)) continue;
                Slot& x = s[d]; x.mgr = (int)r.below(3);
                auto tb = std::make_shared<TextBuf>(); tb->n = t.size(); tb->p = (Char*)malloc((t.size() ? t.size() : 1) * sizeof(Char));
                for (size_t i = 0; i < t.size(); i++) tb->p[i] = X::wid((unsigned char)t[i]);
                const Char* ep; int rc;
                lw.reset();
                { LibScope ls; rc = x.mgr < 2 ? X::ParseSingleUriExMm(&x.u, tb->p, tb->p + tb->n, &ep, mm(x.mgr)) : X::ParseSingleUriEx(&x.u, tb->p, tb->p + tb->n, &ep); }
                if (x.mgr < 2 && lw.available && lw.allocs) c->violation("C13", fmt("hist/%s/parse/libc-allocation-with-custom-manager", X::tag()), esc(t));
                if (rc != URI_SUCCESS) continue;
                // C07's last sentence also holds for what parsing returns: the structure is well formed (which text the components
                // hold is C02's business, and an object that misrepresents its text does not enter the history)
                { ObjView pv = read_uri<X>(x.u); if (!pv.malformed.empty()) { Str cls = pv.malformed.substr(0, pv.malformed.find(':') == Str::npos ? pv.malformed.size() : pv.malformed.find(':')); for (auto& ch : cls) if (ch == ' ') ch = '-';
                    c->violation("C07", fmt("hist/%s/parse/malformed-%s", X::tag(), cls.c_str()), fmt("parse(\"%s\"): %s", esc(t).c_str(), pv.malformed.c_str())); } }
                if (!faithful_uri<X>(x.u, t)) { c->count("skipped_unfaithful_parse"); LibScope ls; if (x.mgr < 2) X::FreeUriMembersMm(&x.u, mm(x.mgr)); else X::FreeUriMembers(&x.u); continue; }
                x.live = true; x.damaged = false; x.texts.clear(); x.texts.push_back(tb); x.origin = "parse(\"" + esc(t) + "\")"; log(fmt("s%d=", d) + x.origin);
                check_object(d, "parse");
            } else if (op == 3) {                            // make owner
                int i = pick_live(true); if (i < 0) continue;
                Slot& x = s[i]; Str before = text(i); bool was = x.u.owner;
                lw.reset(); int rc;
                bool inject = x.mgr < 2 && r.chance(1, 10); if (inject) led[x.mgr].arm((long)r.range(1, 10), r.coin());
                { LibScope ls; rc = x.mgr < 2 ? X::MakeOwnerMm(&x.u, mm(x.mgr)) : X::MakeOwner(&x.u); }
                if (inject) { bool hit = led[x.mgr].failed > 0; led[x.mgr].fail_at = 0; led[x.mgr].fail_from = false; led[x.mgr].failed = 0; if (hit) { c->count("inplace_ops_with_refused_request"); if (rc != URI_SUCCESS) { x.damaged = true; x.origin = "makeOwner-FAILED(" + x.origin + ")"; log(fmt("makeOwner(s%d) ran out of memory", i)); continue; } } }
                if (x.mgr < 2 && lw.available && lw.allocs) c->violation("C13", fmt("hist/%s/makeowner/libc-allocation-with-custom-manager", X::tag()), x.origin);
                if (rc != URI_SUCCESS) { c->count("makeowner_failed"); continue; }
                log(fmt("makeOwner(s%d)", i)); x.origin = "makeOwner(" + x.origin + ")";
                Str after = text(i);
                if (before != after && !x.damaged) c->violation("C12", fmt("hist/%s/makeowner/content-changed", X::tag()), fmt("%s before=\"%s\" after=\"%s\"", x.origin.c_str(), esc(before).c_str(), esc(after).c_str()));
                if (!was) became_owner(i, "makeowner");
                check_object(i, "makeowner");
            } else if (op == 4 || op == 5) {                 // normalize
                int i = pick_live(true); if (i < 0) continue;
                Slot& x = s[i]; unsigned mask = r.chance(1, 3) ? 63u : r.below(64); bool was = x.u.owner;
                lw.reset(); int rc;
                bool inject = x.mgr < 2 && r.chance(1, 10); if (inject) led[x.mgr].arm((long)r.range(1, 10), r.coin());
                { LibScope ls; rc = x.mgr < 2 ? X::NormalizeSyntaxExMm(&x.u, mask, mm(x.mgr)) : X::NormalizeSyntaxEx(&x.u, mask); }
                if (inject) { bool hit = led[x.mgr].failed > 0; led[x.mgr].fail_at = 0; led[x.mgr].fail_from = false; led[x.mgr].failed = 0; if (hit) { c->count("inplace_ops_with_refused_request"); if (rc != URI_SUCCESS) { x.damaged = true; x.origin = fmt("normalize-FAILED(%s,0x%x)", x.origin.c_str(), mask); log(fmt("normalize(s%d,0x%x) ran out of memory", i, mask)); continue; } } }
                if (x.mgr < 2 && lw.available && lw.allocs) c->violation("C13", fmt("hist/%s/normalize/libc-allocation-with-custom-manager", X::tag()), x.origin);
                if (rc != URI_SUCCESS) { c->count("normalize_failed"); continue; }
                log(fmt("normalize(s%d,0x%x)", i, mask)); x.origin = fmt("normalize(%s,0x%x)", x.origin.c_str(), mask);
                if (!was && mask != 0) became_owner(i, "normalize");
                check_object(i, "normalize");
            } else if (op == 6 || op == 7) {                 // resolve / create reference
                int a = pick_live(false), b = pick_live(false); if (a < 0 || b < 0) continue;
                int d = pick_dest(); if (d < 0 || d == a || d == b || !s[a].live || !s[b].live) continue;
                Slot& x = s[d]; x.mgr = (int)r.below(3);
                Str snapA = deep_snapshot<X>(s[a].u), snapB = deep_snapshot<X>(s[b].u);
                int rc; bool isResolve = op == 6; int flag = (int)r.below(2);
                lw.reset();
                {
                    LibScope ls;
                    if (isResolve) rc = x.mgr < 2 ? X::AddBaseUriExMm(&x.u, &s[a].u, &s[b].u, flag ? URI_RESOLVE_IDENTICAL_SCHEME_COMPAT : URI_RESOLVE_STRICTLY, mm(x.mgr)) : X::AddBaseUriEx(&x.u, &s[a].u, &s[b].u, flag ? URI_RESOLVE_IDENTICAL_SCHEME_COMPAT : URI_RESOLVE_STRICTLY);
                    else rc = x.mgr < 2 ? X::RemoveBaseUriMm(&x.u, &s[a].u, &s[b].u, flag, mm(x.mgr)) : X::RemoveBaseUri(&x.u, &s[a].u, &s[b].u, flag);
                }
                if (x.mgr < 2 && lw.available && lw.allocs) c->violation("C13", fmt("hist/%s/%s/libc-allocation-with-custom-manager", X::tag(), isResolve ? "resolve" : "createref"), s[a].origin);
                c->attribute("C12");
                if (deep_snapshot<X>(s[a].u) != snapA || deep_snapshot<X>(s[b].u) != snapB) c->violation("C12", fmt("hist/%s/%s/const-argument-modified", X::tag(), isResolve ? "resolve" : "createref"), trace);
                if (rc != URI_SUCCESS) { c->count(isResolve ? "resolve_rejected" : "createref_rejected"); continue; }
                x.live = true; x.damaged = s[a].damaged || s[b].damaged; x.texts.clear(); x.pins.clear(); inherit(x, s[a], a); inherit(x, s[b], b);
                x.origin = fmt("%s(%s , %s, %d)", isResolve ? "resolve" : "createRef", s[a].origin.c_str(), s[b].origin.c_str(), flag);
                log(fmt("s%d=%s(s%d,s%d,%d)", d, isResolve ? "resolve" : "createRef", a, b, flag));
                check_object(d, isResolve ? "resolve" : "createref");
            } else if (op == 8) {                            // comparison / read-only queries on two objects
                int a = pick_live(false), b = pick_live(false); if (a < 0 || b < 0) continue;
                c->attribute("C11");
                Str snapA = deep_snapshot<X>(s[a].u), snapB = deep_snapshot<X>(s[b].u);
                int eq, eq2; unsigned mr; { LibScope ls; eq = X::EqualsUri(&s[a].u, &s[b].u); eq2 = X::EqualsUri(&s[b].u, &s[a].u); mr = X::NormalizeSyntaxMaskRequired(&s[a].u); }
                (void)mr; c->evaluations += 3;
                Str ta = text(a), tb = text(b);
                if (deep_snapshot<X>(s[a].u) != snapA || deep_snapshot<X>(s[b].u) != snapB) c->violation("C12", fmt("hist/%s/readonly-query-modified-argument", X::tag()), trace);
                if (eq != eq2) c->violation("C11", fmt("hist/%s/equals-not-symmetric", X::tag()), fmt("a=%s b=%s", s[a].origin.c_str(), s[b].origin.c_str()));
                // first sentence of C11 on the structures themselves -- for every pair, whatever its past
                { bool same = struct_key<X>(s[a].u) == struct_key<X>(s[b].u);
                  if ((eq != 0) != same) c->violation("C11", fmt("hist/%s/equals-vs-structure/%s", X::tag(), eq ? "equal-but-a-component-differs" : "all-components-identical-not-equal"), fmt("a=%s b=%s history: %s", s[a].origin.c_str(), s[b].origin.c_str(), trace.c_str()));
                  else c->count(same ? "structure_agree_equal" : "structure_agree_different"); }
                bool judged = !s[a].damaged && !s[b].damaged;      // (objects with a failed operation in their past: see check_object)
                if (!judged) c->count("equals_pairs_not_judged_damaged_lineage");
                else if ((eq != 0) != (ta == tb)) c->violation("C11", fmt("hist/%s/equals-vs-text/%s", X::tag(), eq ? "equal-but-texts-differ" : "same-text-not-equal"), fmt("a=%s text=\"%s\" b=%s text=\"%s\"", s[a].origin.c_str(), esc(ta).c_str(), s[b].origin.c_str(), esc(tb).c_str()));
                else c->count(eq ? "equals_agree_equal" : "equals_agree_different");
                // a re-parse of a's text must be equal to a (produced objects vs parsed objects)
                if (judged && r.chance(1, 2)) {
                    UriBox<X> p; if (p.parse(ta) == URI_SUCCESS) { int e3; { LibScope ls; e3 = X::EqualsUri(&s[a].u, &p.u); } Str tp; p.str(&tp); c->evaluations++;
                        if ((e3 != 0) != (tp == ta)) c->violation("C11", fmt("hist/%s/equals-vs-text/reparsed-%s", X::tag(), e3 ? "equal-but-texts-differ" : "same-text-not-equal"), fmt("a=%s text=\"%s\" reparsed text=\"%s\"", s[a].origin.c_str(), esc(ta).c_str(), esc(tp).c_str())); }
                }
            } else {                                         // free
                int i = pick_live(true); if (i < 0) continue; log(fmt("free(s%d)", i)); release(i);
            }
        }
        // end of history: release everything (dependents before lenders), then the ledgers must be empty
        c->attribute("C13");
        for (int round = 0; round < K + 1; round++) for (int i = 0; i < K; i++) if (s[i].live && s[i].pinned == 0) release(i);
        for (int i = 0; i < K; i++) if (s[i].live) { release(i); }
        if (lw.available && !lw.live.empty()) { c->violation("C13", fmt("hist/%s/default-allocator-leak-at-end-of-history", X::tag()), fmt("%zu libc block(s) outstanding; history: %s", lw.live.size(), trace.c_str())); lw.clear_live(); }
        if (lw.available && lw.bad_free) { c->violation("C13", fmt("hist/%s/default-allocator-bad-free", X::tag()), trace); lw.bad_free = 0; }
        for (int m = 0; m < 2; m++) {
            if (led[m].outstanding()) { c->violation("C13", fmt("hist/%s/leak-at-end-of-history", X::tag()), led[m].describe_live() + " history: " + trace); led[m].release_all(); }
            if (led[m].bad_free) { c->violation("C13", fmt("hist/%s/bad-free", X::tag()), led[m].bad_free_note + " history: " + trace); led[m].bad_free = 0; led[m].bad_free_note.clear(); }
            c->count("ledger_requests", led[m].requests); led[m].requests = 0;
        }
        if (c->case_index % 4000 == 1) c->sample(Str("history-") + X::tag(), trace.substr(0, 400));
    }
};

static Hist<ApiA>* hA; static Hist<ApiW>* hW;
static void run_case(Ctx& c, uint64_t idx) {
    if (!hA) { hA = new Hist<ApiA>(); hW = new Hist<ApiW>(); hA->led[0].id = 0; hA->led[1].id = 1; hW->led[0].id = 0; hW->led[1].id = 1; }
    if (idx % 3 == 2) hW->run(c); else hA->run(c);
}
static Monitor mon = {"hist", "C07 C11 C12 C13: random operation histories over a pool of URI objects", "C07", ncases, run_case, nullptr};
VF_REGISTER(mon);
}
