// Common infrastructure for the uriparser runtime monitors: PRNG, text helpers,
// statistics, violation aggregation, flight recorder, JSON output.
#ifndef VF_COMMON_HPP
#define VF_COMMON_HPP 1

#include <cstdint>
#include <cstdio>
#include <cstdlib>
#include <cstring>
#include <string>
#include <vector>
#include <map>
#include <set>
#include <functional>

namespace vf {

typedef std::string Str;            // model text: one byte per code point 0..255
typedef std::vector<Str> StrVec;

// ---------------------------------------------------------------- PRNG
static inline uint64_t mix64(uint64_t x) {
    x += 0x9E3779B97F4A7C15ull;
    x = (x ^ (x >> 30)) * 0xBF58476D1CE4E5B9ull;
    x = (x ^ (x >> 27)) * 0x94D049BB133111EBull;
    return x ^ (x >> 31);
}
static inline uint64_t hash_bytes(const void* p, size_t n, uint64_t h = 0xcbf29ce484222325ull) {
    const unsigned char* b = (const unsigned char*)p;
    for (size_t i = 0; i < n; i++) { h ^= b[i]; h *= 0x100000001b3ull; }
    return mix64(h);
}
static inline uint64_t hash_str(const Str& s, uint64_t h = 0xcbf29ce484222325ull) {
    return hash_bytes(s.data(), s.size(), h);
}

struct Rng {
    uint64_t s;
    explicit Rng(uint64_t seed = 1) : s(seed) {}
    void seed(uint64_t a, uint64_t b = 0, uint64_t c = 0) { s = mix64(a ^ mix64(b ^ mix64(c))); }
    uint64_t next() { s += 0x9E3779B97F4A7C15ull; uint64_t z = s;
        z = (z ^ (z >> 30)) * 0xBF58476D1CE4E5B9ull; z = (z ^ (z >> 27)) * 0x94D049BB133111EBull; return z ^ (z >> 31); }
    uint32_t below(uint32_t n) { return n ? (uint32_t)((next() >> 11) % n) : 0; }   // [0,n)
    int range(int lo, int hi) { return lo + (int)below((uint32_t)(hi - lo + 1)); }   // [lo,hi]
    bool chance(int num, int den) { return (int)below((uint32_t)den) < num; }
    bool coin() { return next() & 1; }
    template <class T> const T& pick(const std::vector<T>& v) { return v[below((uint32_t)v.size())]; }
};

// ---------------------------------------------------------------- text helpers
Str esc(const Str& s);                         // printable rendering with \xNN
Str json_str(const Str& s);                    // JSON string literal (with quotes)
Str hexs(const void* p, size_t n);
Str fmt(const char* f, ...) __attribute__((format(printf, 1, 2)));

// ---------------------------------------------------------------- stats + violations
struct Witness { uint64_t index; Str detail; };
struct VioAgg { Str prop, key; uint64_t count = 0; std::vector<Witness> wit; };

struct Ctx {
    // configuration
    uint64_t seed = 1;
    int worker = 0, nworkers = 1;
    Str tier = "quick";
    Str monitor;
    Str build = "fast";
    std::map<Str, Str> params;      // free-form key=value from the driver
    bool verbose = false;           // replay mode: describe the case
    // per-case
    Rng rng;
    uint64_t case_index = 0;
    char cur_prop[8] = "";          // property the code currently running is attributed to (crash attribution)
    void attribute(const char* p) { strncpy(cur_prop, p, sizeof cur_prop - 1); }
    // results
    uint64_t evaluations = 0;       // library calls checked by an oracle
    uint64_t cases = 0;
    std::map<Str, uint64_t> counters;
    std::map<Str, std::vector<Str>> samples;   // category -> few samples
    std::map<Str, VioAgg> violations;
    std::vector<uint64_t> bitmap;   // linear-counting bitmap for distinct non-trivial cases
    size_t bitmap_bits = (size_t)1 << 23;           // quick: 2^23; thorough: 2^27 (set_bitmap_bits), so that the lower bound does not saturate
    // flight recorder (mmapped by main)
    volatile uint64_t* recorder = nullptr;     // [0]=case index about to run, [1]=stage code
    char* recorder_note = nullptr;  size_t recorder_note_cap = 0;

    Ctx() : bitmap(((size_t)1 << 23) / 64, 0) {}
    void set_bitmap_bits(size_t bits) { bitmap_bits = bits; bitmap.assign(bits / 64, 0); }
    long param_int(const Str& k, long dflt) const {
        auto it = params.find(k); return it == params.end() ? dflt : atol(it->second.c_str()); }
    Str param(const Str& k, const Str& dflt = "") const {
        auto it = params.find(k); return it == params.end() ? dflt : it->second; }
    void count(const Str& name, uint64_t n = 1) { counters[name] += n; }
    void distinct(uint64_t h) { size_t b = (size_t)(h % bitmap_bits); bitmap[b >> 6] |= (1ull << (b & 63)); }
    void sample(const Str& cat, const Str& s, size_t keep = 4) {
        auto& v = samples[cat];
        if (v.size() < keep) v.push_back(s);
        else if (rng.below(4096) == 0) v[rng.below((uint32_t)keep)] = s;   // occasional refresh
    }
    void violation(const Str& prop, const Str& key, const Str& detail);
    void note(const char* s) {      // cheap breadcrumb for crash attribution
        if (recorder_note && recorder_note_cap) { strncpy(recorder_note, s, recorder_note_cap - 1); }
    }
    void note(const Str& s) { note(s.c_str()); }
    void stage(uint64_t st) { if (recorder) recorder[1] = st; }
};

// A monitor: number of cases for the tier, and the per-case body.
struct Monitor {
    const char* name;
    const char* help;
    const char* primary_prop;       // default crash attribution
    uint64_t (*ncases)(Ctx&);
    void (*run_case)(Ctx&, uint64_t index);
    void (*finish)(Ctx&);           // may be null: end-of-run checks / counters
    void (*fuzz_one)(Ctx&, const unsigned char* data, size_t n);   // may be null: the monitor's oracle on a fuzzer-provided input (fuzz build)
};
void register_monitor(const Monitor& m);
const std::vector<Monitor>& all_monitors();
// fuzz helpers: split fuzzer bytes into two texts at the first newline
static inline void fuzz_split2(const unsigned char* d, size_t n, Str* a, Str* b) { size_t i = 0; while (i < n && d[i] != '\n') i++; a->assign((const char*)d, i); if (i < n) b->assign((const char*)d + i + 1, n - i - 1); else b->clear(); }
extern const char* (*crash_explain)(const void* fault_addr);   // optional: a monitor explains a faulting address (e.g. "inside the read-only arena of shared inputs"); no spaces
Ctx* current_ctx();                 // the worker's context (for attribution from helpers that have no Ctx at hand)
// While alive, a crash / sanitizer abort is attributed to `prop` instead of the monitor's current property.
struct AttrScope {
    char saved[8]; Ctx* c;
    explicit AttrScope(const char* prop) : c(current_ctx()) { if (c) { memcpy(saved, c->cur_prop, 8); c->attribute(prop); } }
    ~AttrScope() { if (c) memcpy(c->cur_prop, saved, 8); }
};
#define VF_REGISTER(mon) static struct Reg_##mon { Reg_##mon() { vf::register_monitor(mon); } } reg_##mon

} // namespace vf
#endif
