// Monitor "owner": C12 -- after make-owner / normalisation (any non-zero mask) a URI is independent of
// its source text (scribbled, then unmapped / freed); the source text itself is never written
// (read-only mapping while the library runs); content after make-owner equals content before.
#include "vf_obj.hpp"
#include "vf_gen.hpp"

using namespace vf;
namespace {

static uint64_t ncases(Ctx& c) { return gdegenerate_count() / 3 + (uint64_t)c.param_int("random", c.tier == "thorough" ? 2000000 : 60000); }

template <class X> void run(Ctx& c, const Str& s, unsigned mask, int opKind, int faultAt, bool faultFrom) {
    typedef typename X::Char Char; typedef typename X::Uri Uri;
    size_t e; if (!dfa_uriref(s, &e)) { c.count("skipped_invalid"); return; }
    typename X::S w = widen<X>(s);
    size_t nbytes = w.size() * sizeof(Char);
    // source text: flush against a fence in its own mapping (fast) or an exact heap block (sanitizer builds)
    GuardRegion* reg = nullptr; Char* text;
    if (build_has_sanitizer()) { text = (Char*)malloc(nbytes ? nbytes : 1); memcpy(text, w.data(), nbytes); }
    else { reg = new GuardRegion(nbytes ? nbytes : 1); text = (Char*)(c.case_index & 1 ? reg->place_start(w.data(), nbytes) : reg->place_end(w.data(), nbytes)); }
    Uri u; const Char* ep; int rc;
    Ledger led; bool useLed = ((c.case_index >> 1) & 1) || faultAt > 0; led.quarantine = true; led.poison_on_free = false;
    c.stage(1);
    if (reg) reg->protect_ro();
    { LibScope ls; rc = useLed ? X::ParseSingleUriExMm(&u, text, text + w.size(), &ep, led.mgr()) : X::ParseSingleUriEx(&u, text, text + w.size(), &ep); }
    if (rc != URI_SUCCESS) { if (reg) { reg->unprotect(); delete reg; } else free(text); c.count("parse_failed"); return; }
    if (!faithful_uri<X>(u, s)) { c.count("skipped_unfaithful_parse"); { LibScope ls; if (useLed) X::FreeUriMembersMm(&u, led.mgr()); else X::FreeUriMembers(&u); } if (reg) { reg->unprotect(); delete reg; } else free(text); return; }
    c.note(fmt("%s owner \"%s\" mask=0x%x op=%d", X::tag(), esc(s.substr(0, 200)).c_str(), mask, opKind));
    Str what = fmt("input=\"%s\" op=%s mask=0x%x", esc(s).c_str(), opKind == 0 ? "makeOwner" : "normalize", mask);
    Str textBefore; to_string<X>(u, &textBefore);
    // the operation, with the source text mapped read-only: a store into caller text traps
    c.stage(2);
    if (faultAt > 0) led.arm(faultAt, faultFrom);
    { LibScope ls; if (opKind == 0) rc = useLed ? X::MakeOwnerMm(&u, led.mgr()) : X::MakeOwner(&u); else rc = useLed ? X::NormalizeSyntaxExMm(&u, mask, led.mgr()) : X::NormalizeSyntaxEx(&u, mask); }
    c.evaluations++;
    bool faulted = faultAt > 0 && led.failed > 0; led.fail_at = 0; led.fail_from = false;
    if (faulted) {
        // The operation ran out of memory half way (source text still mapped read-only: a store traps). Whatever state the URI is in,
        // caller-supplied text must neither have been written nor handed to the manager's free function, now or by the cleanup.
        c.count("owner_op_faulted"); what += fmt(" allocation #%d%s failed", faultAt, faultFrom ? " and all later ones" : "");
        // half of the time the caller gives up and cleans up; otherwise it tries the same operation again on the same object (memory is
        // available now) -- if that succeeds, the object must be as independent of its source as after a first-time success
        bool retry = (c.case_index >> 3) & 1; int rc2 = -1;
        if (retry) { LibScope ls; if (opKind == 0) rc2 = X::MakeOwnerMm(&u, led.mgr()); else rc2 = X::NormalizeSyntaxExMm(&u, mask, led.mgr()); c.evaluations++; }
        if (!(retry && rc2 == URI_SUCCESS)) {
            { LibScope ls; X::FreeUriMembersMm(&u, led.mgr()); }
            const char* lo = (const char*)text; const char* hi = lo + nbytes; const char* bp = (const char*)led.last_bad_ptr;
            if (led.bad_free && bp >= lo && bp < hi + (nbytes ? 0 : 1)) c.violation("C12", fmt("owner/%s/caller-text-passed-to-free-after-failed-%s", X::tag(), opKind == 0 ? "makeowner" : "normalize"), what + " " + led.bad_free_note);
            if (reg) reg->unprotect();
            if (memcmp(text, w.data(), nbytes) != 0) c.violation("C12", fmt("owner/%s/source-text-modified", X::tag()), what);
            led.release_all(); if (reg) delete reg; else free(text);
            return;
        }
        c.count("owner_op_retried_after_fault"); what += ", then the same call again succeeded"; rc = rc2;
        if (opKind == 0) textBefore.clear();      // what the failed attempt left behind is not specified; only independence is judged below
    }
    if (reg) reg->unprotect();
    if (memcmp(text, w.data(), nbytes) != 0) c.violation("C12", fmt("owner/%s/source-text-modified", X::tag()), what);
    if (rc != URI_SUCCESS) { c.violation("C12", fmt("owner/%s/operation-failed", X::tag()), what + fmt(" rc=%d", rc)); }
    else {
        if (!u.owner) c.violation("C12", fmt("owner/%s/owner-flag-not-set", X::tag()), what);
        ObjView v1 = read_uri<X>(u); Str t1; to_string<X>(u, &t1);
        Str ht1 = narrow<X>(u.hostText.first, u.hostText.afterLast);
        // (after a failed attempt the content of the object is unspecified -- e.g. the host text reverted to NULL while the address block
        //  stays -- so the structural check is only made for first-time successes; independence of the source is judged in both cases)
        if (!v1.malformed.empty() && !faulted) c.violation("C12", fmt("owner/%s/malformed-after-%s", X::tag(), opKind == 0 ? "makeowner" : "normalize"), what + " " + v1.malformed);
        if (opKind == 0 && !textBefore.empty() && t1 != textBefore) c.violation("C12", fmt("owner/%s/content-changed-by-makeowner", X::tag()), what + fmt(" before=\"%s\" after=\"%s\"", esc(textBefore).c_str(), esc(t1).c_str()));
        // (a) overwrite the source with a different pattern
        c.stage(3);
        for (size_t i = 0; i < w.size(); i++) text[i] = X::wid((unsigned char)('!' + (i % 7)));
        ObjView v2 = read_uri<X>(u); Str t2; to_string<X>(u, &t2);
        Str ht2 = narrow<X>(u.hostText.first, u.hostText.afterLast);
        if (t2 != t1 || v2.c.describe() != v1.c.describe() || v2.segs != v1.segs || ht2 != ht1 || v2.malformed != v1.malformed)
            c.violation("C12", fmt("owner/%s/depends-on-source-after-%s", X::tag(), opKind == 0 ? "makeowner" : "normalize"), what + fmt(" before-scribble=\"%s\" after-scribble=\"%s\"", esc(t1).c_str(), esc(t2).c_str()));
        // (b) release the source: any remaining pointer into it now faults (fence) or is a use-after-free (ASan)
        c.stage(4);
        if (reg) { delete reg; reg = nullptr; } else { free(text); } text = nullptr;
        ObjView v3 = read_uri<X>(u); Str t3; to_string<X>(u, &t3);
        if (t3 != t1) c.violation("C12", fmt("owner/%s/depends-on-source-after-release", X::tag()), what);
        // a second normalisation / equality / mask query must also work without the source
        { LibScope ls; (void)X::NormalizeSyntaxMaskRequired(&u); (void)X::EqualsUri(&u, &u); }
        c.distinct(hash_str(s, mask * 2 + (unsigned)opKind));
        c.count(fmt("hostkind_%d", v1.c.hostKind));
        if (v1.segs.size() > 65535) c.count("paths_of_more_than_65535_segments");
    }
    c.stage(5);
    { LibScope ls; if (useLed) X::FreeUriMembersMm(&u, led.mgr()); else X::FreeUriMembers(&u); }
    if (useLed && led.outstanding()) { c.violation("C13", fmt("owner/%s/leak-after-free", X::tag()), what + " " + led.describe_live()); led.release_all(); }
    if (useLed && led.bad_free) c.violation("C13", fmt("owner/%s/bad-free", X::tag()), what + " " + led.bad_free_note);
    if (reg) delete reg; else if (text) free(text);
}

static void run_case(Ctx& c, uint64_t idx) {
    Rng& r = c.rng; Str s;
    uint64_t nd = gdegenerate_count() / 3;
    if (idx < nd) s = gdegenerate_case(idx * 3 + (c.seed % 3));
    else { UriGenOpts o; o.auth = r.chance(3, 4); o.maxSegs = 5; o.huge = true; s = gen_uri(r, o); }
    int opKind = (int)r.below(3) ? 1 : 0;
    unsigned mask = opKind ? (r.chance(1, 4) ? 63u : (1 + r.below(63))) : 0; if (opKind && r.chance(1, 16)) mask |= 0xFFFFFF00u;
    if (opKind && r.chance(1, 12)) { static const unsigned hi[] = {0x40u, 0x80u, 0x80000000u, 0xFFFFFFC0u, 0x100u, 0x7FFFFFC0u}; mask = r.chance(1, 2) ? hi[r.below(6)] : (1u << r.range(6, 31)); }   // "any non-zero mask": also one without a single component bit
    int faultAt = r.chance(1, 5) ? r.range(1, 14) : 0; bool faultFrom = r.coin();
    if (idx % 2) run<ApiW>(c, s, mask, opKind, faultAt, faultFrom); else run<ApiA>(c, s, mask, opKind, faultAt, faultFrom);
    if (idx % 4000 == 3) c.sample("uri", esc(s) + fmt(" mask=0x%x", mask));
}
static Monitor mon = {"owner", "C12: ownership independence under scribbled / released source text; source never written", "C12", ncases, run_case, nullptr};
VF_REGISTER(mon);
}
