// The library's two generated APIs (char / wchar_t) as C++ traits, so that every
// monitor is written once and instantiated twice.
#ifndef VF_API_HPP
#define VF_API_HPP 1
#include <uriparser/Uri.h>
#include <uriparser/UriIp4.h>
#include <wchar.h>
#include "vf_common.hpp"

namespace vf {

#define VF_API_BODY(S)                                                                         \
    typedef UriUri##S Uri; typedef UriPathSegment##S Seg; typedef UriTextRange##S Range;       \
    typedef UriParserState##S State; typedef UriQueryList##S QList; typedef UriHostData##S HostData; \
    static constexpr auto ParseUriEx = uriParseUriEx##S;                                       \
    static constexpr auto ParseUri = uriParseUri##S;                                           \
    static constexpr auto ParseSingleUri = uriParseSingleUri##S;                               \
    static constexpr auto ParseSingleUriEx = uriParseSingleUriEx##S;                           \
    static constexpr auto ParseSingleUriExMm = uriParseSingleUriExMm##S;                       \
    static constexpr auto FreeUriMembers = uriFreeUriMembers##S;                               \
    static constexpr auto FreeUriMembersMm = uriFreeUriMembersMm##S;                           \
    static constexpr auto EscapeEx = uriEscapeEx##S;                                           \
    static constexpr auto Escape = uriEscape##S;                                               \
    static constexpr auto UnescapeInPlaceEx = uriUnescapeInPlaceEx##S;                         \
    static constexpr auto UnescapeInPlace = uriUnescapeInPlace##S;                             \
    static constexpr auto AddBaseUri = uriAddBaseUri##S;                                       \
    static constexpr auto AddBaseUriEx = uriAddBaseUriEx##S;                                   \
    static constexpr auto AddBaseUriExMm = uriAddBaseUriExMm##S;                               \
    static constexpr auto RemoveBaseUri = uriRemoveBaseUri##S;                                 \
    static constexpr auto RemoveBaseUriMm = uriRemoveBaseUriMm##S;                             \
    static constexpr auto EqualsUri = uriEqualsUri##S;                                         \
    static constexpr auto ToStringCharsRequired = uriToStringCharsRequired##S;                 \
    static constexpr auto ToString = uriToString##S;                                           \
    static constexpr auto NormalizeSyntaxMaskRequired = uriNormalizeSyntaxMaskRequired##S;     \
    static constexpr auto NormalizeSyntaxMaskRequiredEx = uriNormalizeSyntaxMaskRequiredEx##S; \
    static constexpr auto NormalizeSyntaxEx = uriNormalizeSyntaxEx##S;                         \
    static constexpr auto NormalizeSyntaxExMm = uriNormalizeSyntaxExMm##S;                     \
    static constexpr auto NormalizeSyntax = uriNormalizeSyntax##S;                             \
    static constexpr auto UnixFilenameToUriString = uriUnixFilenameToUriString##S;             \
    static constexpr auto WindowsFilenameToUriString = uriWindowsFilenameToUriString##S;       \
    static constexpr auto UriStringToUnixFilename = uriUriStringToUnixFilename##S;             \
    static constexpr auto UriStringToWindowsFilename = uriUriStringToWindowsFilename##S;       \
    static constexpr auto ComposeQueryCharsRequired = uriComposeQueryCharsRequired##S;         \
    static constexpr auto ComposeQueryCharsRequiredEx = uriComposeQueryCharsRequiredEx##S;     \
    static constexpr auto ComposeQuery = uriComposeQuery##S;                                   \
    static constexpr auto ComposeQueryEx = uriComposeQueryEx##S;                               \
    static constexpr auto ComposeQueryMalloc = uriComposeQueryMalloc##S;                       \
    static constexpr auto ComposeQueryMallocEx = uriComposeQueryMallocEx##S;                   \
    static constexpr auto ComposeQueryMallocExMm = uriComposeQueryMallocExMm##S;               \
    static constexpr auto DissectQueryMalloc = uriDissectQueryMalloc##S;                       \
    static constexpr auto DissectQueryMallocEx = uriDissectQueryMallocEx##S;                   \
    static constexpr auto DissectQueryMallocExMm = uriDissectQueryMallocExMm##S;               \
    static constexpr auto FreeQueryList = uriFreeQueryList##S;                                 \
    static constexpr auto FreeQueryListMm = uriFreeQueryListMm##S;                             \
    static constexpr auto MakeOwner = uriMakeOwner##S;                                         \
    static constexpr auto MakeOwnerMm = uriMakeOwnerMm##S;                                     \
    static constexpr auto ParseIpFourAddress = uriParseIpFourAddress##S;

struct ApiA {
    typedef char Char;
    typedef std::basic_string<char> S;
    static const char* tag() { return "A"; }
    VF_API_BODY(A)
    static Char wid(unsigned char c) { return (char)c; }
    static unsigned cp(Char c) { return (unsigned char)c; }
};
struct ApiW {
    typedef wchar_t Char;
    typedef std::basic_string<wchar_t> S;
    static const char* tag() { return "W"; }
    VF_API_BODY(W)
    static Char wid(unsigned char c) { return (wchar_t)c; }
    static unsigned cp(Char c) { return (unsigned)c; }
};

// model text (bytes = code points 0..255) <-> API text
template <class X> typename X::S widen(const Str& s) {
    typename X::S o; o.resize(s.size());
    for (size_t i = 0; i < s.size(); i++) o[i] = X::wid((unsigned char)s[i]);
    return o;
}
// narrow: code points > 255 become 0xFF and set *lossy
template <class X> Str narrow(const typename X::Char* first, const typename X::Char* afterLast, bool* lossy = nullptr) {
    Str o; if (!first || !afterLast || afterLast < first) return o;
    o.resize((size_t)(afterLast - first));
    for (size_t i = 0; i < o.size(); i++) { unsigned c = X::cp(first[i]); if (c > 255) { if (lossy) *lossy = true; c = 255; } o[i] = (char)c; }
    return o;
}
template <class X> size_t xstrlen(const typename X::Char* s) { size_t n = 0; while (s[n]) n++; return n; }

} // namespace vf
#endif
