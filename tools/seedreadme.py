#!/usr/bin/env python3
"""Regenerate seeded/README.md from seeded/*/meta.json (which checks catch which seeded change, at which tier)."""
import json, glob, os
root = os.path.join(os.path.dirname(os.path.abspath(__file__)), '..', 'seeded')
rows = []
for m in sorted(glob.glob(os.path.join(root, '*', 'meta.json'))):
    d = json.load(open(m))
    caught = d.get('caught_by') or []
    if not caught:
        ck = d.get('checked', {})
        if 'exit 1' in ck.get('result', ''):
            toks = ck.get('cmd', '').split()
            caught = ['%s %s' % (t, toks[toks.index('quick') if 'quick' in toks else toks.index('thorough')]) for t in toks if t.startswith('C') and t[1:].isdigit()]
    rows.append((d['id'], d['breaks'], d['change'].replace('|', '\\|'), d['needs_to_manifest'].replace('|', '\\|'), ', '.join(caught) or 'MISSED', d.get('strengthened', '')))
out = ['# Seeded changes', '',
       'Each directory holds `patch.diff` (applies to /repo HEAD), the author\'s demonstration (`demo.c`), the author\'s `REPORT.md` where one was written, and `meta.json`.',
       'Every change was written by an independent sub-agent that saw only the property text and a scratch worktree, and was then',
       'confirmed here in a scratch worktree (`tools/confirm_seed.sh`): applies, compiles, the repository\'s suite passes, the',
       'demonstration passes without and fails with the change. "caught by" lists the checks (tier) that exit 1 with a VIOLATION',
       'line on the changed tree (`tools/seedtest.sh`); none of them is ever applied to /repo permanently.', '',
       '| id | breaks | change | needs, to manifest | caught by | machinery strengthened for it |', '|---|---|---|---|---|---|']
for r in rows: out.append('| ' + ' | '.join(r) + ' |')
open(os.path.join(root, 'README.md'), 'w').write('\n'.join(out) + '\n')
print('%d seeded changes, %d missed' % (len(rows), sum(1 for r in rows if r[4] == 'MISSED')))
