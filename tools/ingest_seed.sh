#!/bin/sh
# tools/ingest_seed.sh <srcdir with patch.diff demo.c [REPORT.md]> <seed-id> <tier> <ID>... : copy into seeded/<seed-id>, confirm, run checks
SRC=$1; ID=$2; TIER=$3; shift 3
cd "$(dirname "$0")/.." || exit 2
mkdir -p seeded/$ID
cp "$SRC/patch.diff" "$SRC/demo.c" seeded/$ID/ || exit 2
for f in REPORT.md NOTES.txt; do [ -f "$SRC/$f" ] && cp "$SRC/$f" seeded/$ID/; done
SAN=address,undefined; case "$ID" in C20-*) grep -q pthread seeded/$ID/demo.c && SAN=thread;; esac
echo "== $ID confirm: $(tools/confirm_seed.sh seeded/$ID $SAN 2>&1 | tail -2 | tr '\n' ' ')"
tools/seedtest.sh seeded/$ID/patch.diff $TIER "$@" 2>&1 | sed "s/^/   $ID: /"
