#!/usr/bin/env python3
"""Machine-made single-token changes to the library, as a complement to the hand-made seeded changes.

  tools/mutants.py gen  <list.jsonl> [--n N] [--seed S] [--files UriQuery.c,...]
        enumerate every candidate change in /repo/src/*.c (operators below), sample N of them (stratified by file)
  tools/mutants.py run  <list.jsonl> <results.jsonl> [--work DIR] [--tier quick] [--all-checks]
        for each listed change, in a scratch worktree of /repo HEAD under DIR (default /tmp/vf-mut):
          A. does the library still compile, and does the repository's own suite still pass?   (no -> not interesting)
          B. run the checks, most relevant property first, until one reports a VIOLATION        (killed by <ID>)
        appends one JSON line per change to results.jsonl; never touches /repo, /verif/evidence or KNOWN_FINDINGS.txt
  tools/mutants.py report <results.jsonl>
        table: per file, candidates / compile+suite survivors / killed by which check / not killed

Operators (one per change, one line per change):
  rel    <  <->  <=,  >  <->  >=,  ==  <->  !=
  log    &&  <->  ||
  arith  ' + ' <-> ' - ',  '+ 1' -> '+ 0' / '+ 2',  '- 1' -> '- 0' / '- 2'
  const  URI_TRUE <-> URI_FALSE,  small integer literal n -> n+1
  neg    if (X) {   ->   if (!(X)) {
  del    delete a simple statement (assignment, call, break)
  ret    return URI_ERROR_xxx;  ->  return URI_SUCCESS;
A change that survives every check is only a *candidate* gap: it may be equivalent (no observable difference) or
outside every property; each survivor is triaged by hand (DESIGN.md section 12).
"""
import sys, os, re, json, random, subprocess, shutil, glob, time, argparse

VERIF = os.path.dirname(os.path.dirname(os.path.abspath(__file__)))
REPO = '/repo'
GT_INC = '/root/miniconda/include'; GT_LIB = '/root/miniconda/lib'

RELEVANT = {
    'UriParse.c':         ['C01', 'C02', 'C03', 'C04', 'C14', 'C19', 'C07'],
    'UriParseBase.c':     ['C02', 'C01', 'C19'],
    'UriIp4.c':           ['C02', 'C01', 'C19'],
    'UriIp4Base.c':       ['C02', 'C01', 'C19'],
    'UriRecompose.c':     ['C04', 'C05', 'C07', 'C19', 'C11'],
    'UriResolve.c':       ['C06', 'C07', 'C14', 'C09', 'C20', 'C12'],
    'UriShorten.c':       ['C10', 'C07', 'C14', 'C12'],
    'UriNormalize.c':     ['C08', 'C09', 'C12', 'C14', 'C07', 'C13'],
    'UriNormalizeBase.c': ['C08', 'C09', 'C06'],
    'UriCompare.c':       ['C11', 'C10', 'C19'],
    'UriCommon.c':        ['C06', 'C08', 'C12', 'C11', 'C10', 'C07', 'C14', 'C13', 'C03'],
    'UriEscape.c':        ['C16', 'C17', 'C19'],
    'UriQuery.c':         ['C17', 'C13', 'C14', 'C19'],
    'UriFile.c':          ['C18', 'C19'],
    'UriMemory.c':        ['C15', 'C13', 'C14'],
}
ALL = ['C%02d' % i for i in range(1, 21)]

def code_lines(path):
    """yield (lineno, text) for lines that are code (not comment, not preprocessor)."""
    inblock = False
    for i, l in enumerate(open(path, encoding='latin-1').read().split('\n')):
        s = l.strip()
        if inblock:
            if '*/' in s: inblock = False
            continue
        if s.startswith('/*'):
            if '*/' not in s: inblock = True
            continue
        if not s or s.startswith('//') or s.startswith('#') or s.startswith('*'): continue
        yield i, l

def strip_tail_comment(l):
    p = l.find('/*')
    q = l.find('//')
    cut = min([x for x in (p, q) if x >= 0], default=-1)
    return (l, '') if cut < 0 else (l[:cut], l[cut:])

def candidates(path):
    out = []
    def add(i, op, new, old):
        if new != old: out.append(dict(file=os.path.basename(path), line=i + 1, op=op, before=old.strip(), after=new.strip(), new=new))
    for i, full in code_lines(path):
        l, tail = strip_tail_comment(full)
        def sub_each(op, rx, repl):
            for m in re.finditer(rx, l):
                r = repl(m) if callable(repl) else repl
                for rr in (r if isinstance(r, list) else [r]):
                    add(i, op, l[:m.start()] + rr + l[m.end():] + tail, full)
        sub_each('rel', r'(?<![<>=!\-])<=(?!=)', '<')
        sub_each('rel', r'(?<![<>=!\-])>=(?!=)', '>')
        sub_each('rel', r'(?<![<\-])<(?![<=])', '<=')
        sub_each('rel', r'(?<![>\-])>(?![>=])', '>=')
        sub_each('rel', r'==', '!=')
        sub_each('rel', r'!=', '==')
        sub_each('log', r'&&', '||')
        sub_each('log', r'\|\|', '&&')
        sub_each('arith', r' \+ (?=[A-Za-z_(])', ' - ')
        sub_each('arith', r' - (?=[A-Za-z_(])', ' + ')
        sub_each('arith', r'\+ 1\b(?!\.)', ['+ 0', '+ 2'])
        sub_each('arith', r'- 1\b(?!\.)', ['- 0', '- 2'])
        sub_each('const', r'\bURI_TRUE\b', 'URI_FALSE')
        sub_each('const', r'\bURI_FALSE\b', 'URI_TRUE')
        sub_each('const', r'(?<![\w.\'x])([2-9]|1[0-9]|[0-9]{2})\b(?![\w.\'])', lambda m: str(int(m.group(0)) + 1))
        m = re.match(r'^(\s*(?:\}\s*else\s+)?if\s*)\((.*)\)\s*\{\s*$', l)
        if m: add(i, 'neg', '%s(!(%s)) {%s' % (m.group(1), m.group(2), tail), full)
        m = re.match(r'^(\s*)([A-Za-z_*(][^;{}]*;)\s*$', l)
        if m and not re.match(r'^\s*(return|goto|case|default|else|typedef|static|const|int|char|unsigned|size_t|URI_TYPE|URI_CHAR|UriBool|void|struct|wchar_t|long|double)\b', l) \
             and not l.rstrip().endswith(',') and l.count('(') == l.count(')'):
            add(i, 'del', m.group(1) + ';' + tail, full)
        m = re.match(r'^(\s*return\s+)URI_ERROR_\w+;\s*$', l)
        if m: add(i, 'ret', m.group(1) + 'URI_SUCCESS;' + tail, full)
    return out

def cmd_gen(a):
    rnd = random.Random(a.seed)
    files = sorted(glob.glob(os.path.join(REPO, 'src', '*.c')))
    if a.files: files = [f for f in files if os.path.basename(f) in a.files.split(',')]
    per = {}
    for f in files:
        c = candidates(f); per[os.path.basename(f)] = c
    total = sum(len(c) for c in per.values())
    chosen = []
    for f, c in per.items():
        k = max(1, round(a.n * len(c) / total)) if c else 0
        chosen += rnd.sample(c, min(k, len(c)))
    rnd.shuffle(chosen)
    with open(a.list, 'w') as o:
        for j, c in enumerate(chosen):
            c['id'] = 'M%d-%04d' % (a.seed, j); o.write(json.dumps(c) + '\n')
    print('%d candidate changes in %d files, %d sampled -> %s' % (total, len(files), len(chosen), a.list))
    for f, c in per.items(): print('  %-20s %5d candidates' % (f, len(c)))

def sh(cmd, timeout=None, **kw):
    try:
        return subprocess.run(cmd, shell=True, stdout=subprocess.PIPE, stderr=subprocess.STDOUT, text=True, timeout=timeout, errors='replace', **kw)
    except subprocess.TimeoutExpired as e:
        class R: pass
        r = R(); r.returncode = 124; r.stdout = 'TIMEOUT'; return r

class Stage:
    def __init__(self, work):
        self.work = work; self.tree = os.path.join(work, 'tree')
        os.makedirs(work, exist_ok=True)
        if os.path.exists(self.tree):
            sh('git -C %s worktree remove --force %s' % (REPO, self.tree)); shutil.rmtree(self.tree, ignore_errors=True)
        r = sh('git -C %s worktree add -q --detach %s HEAD' % (REPO, self.tree))
        if r.returncode: sys.exit('cannot create worktree: ' + r.stdout)
        with open(os.path.join(work, 'UriConfig.h'), 'w') as f:
            f.write('#ifndef URI_CONFIG_H\n#define URI_CONFIG_H 1\n#define PACKAGE_VERSION "0.9.8"\n#define HAVE_WPRINTF\n#define HAVE_REALLOCARRAY\n#endif\n')
        self.tobj = os.path.join(work, 'tobj'); self.lobj = os.path.join(work, 'lobj')
        os.makedirs(self.tobj, exist_ok=True); os.makedirs(self.lobj, exist_ok=True)
        cmds = ['g++ -O1 -std=gnu++14 -I%s -I%s/include -I%s -I%s/src -c %s -o %s/%s.o' % (GT_INC, self.tree, work, self.tree, f, self.tobj, os.path.basename(f)[:-4])
                for f in glob.glob(self.tree + '/test/*.cpp')]
        ps = [subprocess.Popen(c, shell=True) for c in cmds]
        if any(p.wait() for p in ps): sys.exit('cannot build the test suite objects')
        for f in glob.glob(self.tree + '/src/*.c'):
            if self.cc(os.path.basename(f)).returncode: sys.exit('pristine library does not compile')
        r = self.suite()
        if r != 'pass': sys.exit('pristine suite: ' + r)
    def cc(self, base):
        return sh('gcc -O1 -g -I%s/include -I%s -I%s/src -c %s/src/%s -o %s/%s.o' % (self.tree, self.work, self.tree, self.tree, base, self.lobj, base[:-2]))
    def suite(self):
        r = sh('g++ -o %s/testrunner %s/*.o %s/*.o -L%s -Wl,-rpath,%s -lgtest -lpthread' % (self.work, self.tobj, self.lobj, GT_LIB, GT_LIB))
        if r.returncode: return 'link failed'
        r = sh('%s/testrunner' % self.work, timeout=120)
        if r.returncode == 124: return 'suite hangs'
        if r.returncode != 0 or '[  PASSED  ] 109 tests.' not in r.stdout: return 'suite fails'
        return 'pass'
    def apply(self, m):
        p = os.path.join(self.tree, 'src', m['file'])
        lines = open(p, encoding='latin-1').read().split('\n')
        self.saved = (p, lines[:])
        at = None          # the tree may have moved on a little since the list was made: same line text within 25 lines
        for d in sorted(range(-25, 26), key=abs):
            k = m['line'] - 1 + d
            if 0 <= k < len(lines) and lines[k].strip() == m['before']: at = k; break
        if at is None: return False
        lines[at] = m['new']
        open(p, 'w', encoding='latin-1').write('\n'.join(lines)); return True
    def restore(self, m):
        p, lines = self.saved
        open(p, 'w', encoding='latin-1').write('\n'.join(lines)); self.cc(m['file'])
    def close(self):
        sh('git -C %s worktree remove --force %s' % (REPO, self.tree)); shutil.rmtree(self.work, ignore_errors=True)

def cmd_run(a):
    done = set()
    if os.path.exists(a.results):
        for l in open(a.results): done.add(json.loads(l)['id'])
    todo = [json.loads(l) for l in open(a.list)]
    todo = [m for m in todo if m['id'] not in done]
    st = Stage(a.work)
    out = open(a.results, 'a')
    try:
        for m in todo:
            t0 = time.time(); res = dict(id=m['id'], file=m['file'], line=m['line'], op=m['op'], before=m['before'], after=m['after'])
            if not st.apply(m): res['stage'] = 'stale'
            elif st.cc(m['file']).returncode: res['stage'] = 'does not compile'
            else:
                s = st.suite()
                if s != 'pass': res['stage'] = s
                else:
                    res['stage'] = 'survives suite'; res['scale'] = a.scale; res['checks'] = {}; res['killed_by'] = None
                    if a.suite_only: order = []
                    else: order = RELEVANT.get(m['file'], []) + [c for c in ALL if c not in RELEVANT.get(m['file'], [])]
                    if not a.all_checks and a.max_checks: order = order[:a.max_checks]
                    if a.suite_only: res['killed_by'] = 'not run'
                    for cid in order:
                        env = dict(os.environ, VERIF_REPO=st.tree, VERIF_OUT_DIR=os.path.join(a.work, 'out'), VERIF_SCALE=str(a.scale))
                        r = sh('%s/check %s %s' % (VERIF, cid, a.tier), env=env, timeout=3600)
                        keys = re.findall(r'key=(.*)', r.stdout)
                        res['checks'][cid] = dict(rc=r.returncode, violations=len(re.findall(r'^VIOLATION', r.stdout, re.M)), keys=[k[:200] for k in keys[:3]])
                        if r.returncode == 1 and res['checks'][cid]['violations'] > 0:
                            res['killed_by'] = cid
                            if not a.all_checks: break
                        elif r.returncode not in (0, 1) and res.get('inconclusive') is None:
                            res['inconclusive'] = cid            # exit 2: noticed (crash loop / counters) but not a verdict
                    shutil.rmtree(os.path.join(a.work, 'out'), ignore_errors=True)
            st.restore(m)
            res['wall_s'] = round(time.time() - t0, 1)
            out.write(json.dumps(res) + '\n'); out.flush()
            print('%s %s:%d %-5s %-18s %s' % (m['id'], m['file'], m['line'], m['op'], res['stage'], res.get('killed_by') or res.get('inconclusive') or ''), flush=True)
    finally:
        st.close()

def cmd_report(a):
    rows = [json.loads(l) for l in open(a.results)]
    by = {}
    for r in rows:
        b = by.setdefault(r['file'], dict(n=0, nc=0, suite=0, surv=0, killed={}, alive=[], inc=[]))
        b['n'] += 1
        if r['stage'] in ('does not compile', 'stale'): b['nc'] += 1
        elif r['stage'] != 'survives suite': b['suite'] += 1
        else:
            b['surv'] += 1
            if r.get('killed_by'): b['killed'][r['killed_by']] = b['killed'].get(r['killed_by'], 0) + 1
            elif r.get('inconclusive'): b['inc'].append(r)
            else: b['alive'].append(r)
    print('| file | changes | do not compile | stopped by the suite | pass the suite | of those: reported by | exit 2 only | not reported |')
    print('|---|---|---|---|---|---|---|---|')
    T = dict(n=0, nc=0, suite=0, surv=0, k=0, alive=0, inc=0)
    for f in sorted(by):
        b = by[f]; k = sum(b['killed'].values())
        print('| %s | %d | %d | %d | %d | %s | %d | %d |' % (f, b['n'], b['nc'], b['suite'], b['surv'], ', '.join('%s x%d' % kv for kv in sorted(b['killed'].items())), len(b['inc']), len(b['alive'])))
        T['n'] += b['n']; T['nc'] += b['nc']; T['suite'] += b['suite']; T['surv'] += b['surv']; T['k'] += k; T['alive'] += len(b['alive']); T['inc'] += len(b['inc'])
    print('| total | %(n)d | %(nc)d | %(suite)d | %(surv)d | %(k)d | %(inc)d | %(alive)d |' % T)
    print()
    for f in sorted(by):
        for r in by[f]['inc'] + by[f]['alive']:
            print('%s %s:%d %s  `%s` -> `%s`  %s' % (r['id'], r['file'], r['line'], r['op'], r['before'], r['after'], 'exit-2 in ' + r['inconclusive'] if r.get('inconclusive') else 'NOT REPORTED'))

if __name__ == '__main__':
    ap = argparse.ArgumentParser(); sub = ap.add_subparsers(dest='cmd', required=True)
    g = sub.add_parser('gen'); g.add_argument('list'); g.add_argument('--n', type=int, default=300); g.add_argument('--seed', type=int, default=1); g.add_argument('--files', default='')
    r = sub.add_parser('run'); r.add_argument('list'); r.add_argument('results'); r.add_argument('--work', default='/tmp/vf-mut'); r.add_argument('--tier', default='quick')
    r.add_argument('--all-checks', action='store_true'); r.add_argument('--max-checks', type=int, default=0); r.add_argument('--suite-only', action='store_true'); r.add_argument('--scale', type=float, default=1.0)
    p = sub.add_parser('report'); p.add_argument('results')
    a = ap.parse_args()
    {'gen': cmd_gen, 'run': cmd_run, 'report': cmd_report}[a.cmd](a)
