#!/bin/sh
# Confirm a seeded change independently: tools/confirm_seed.sh <dir with patch.diff and demo.c> [thread]
# In a scratch worktree of /repo HEAD: demo passes on the clean tree; patch applies; library compiles;
# the repository's suite passes (guard off); demo fails with the patch. Prints CONFIRMED or why not.
D=$(readlink -f "$1"); SAN=${2:-address,undefined}
W=$(mktemp -d /tmp/vf-confirm.XXXXXX) || exit 2
trap 'git -C /repo worktree remove --force "$W/tree" >/dev/null 2>&1; rm -rf "$W"' EXIT
git -C /repo worktree add -q --detach "$W/tree" HEAD || exit 2
printf '#ifndef URI_CONFIG_H\n#define URI_CONFIG_H 1\n#define PACKAGE_VERSION "0.9.8"\n#define HAVE_WPRINTF\n#define HAVE_REALLOCARRAY\n#endif\n' > "$W/UriConfig.h"
build_demo() { gcc -g -fsanitize=$SAN -I"$W/tree/include" -I"$W" -o "$W/demo" "$D/demo.c" "$W/tree"/src/*.c -lpthread > "$W/cc.log" 2>&1; }
run_demo() { TSAN_OPTIONS=halt_on_error=1 ASAN_OPTIONS=detect_leaks=0 timeout 120 "$W/demo" > "$W/demo.log" 2>&1; echo $?; }
build_demo || { echo "NOT CONFIRMED: demo does not compile on the clean tree"; tail -5 "$W/cc.log"; exit 1; }
r0=$(run_demo)
git -C "$W/tree" apply "$D/patch.diff" || { echo "NOT CONFIRMED: patch does not apply"; exit 1; }
build_demo || { echo "NOT CONFIRMED: library does not compile with the patch"; tail -5 "$W/cc.log"; exit 1; }
r1=$(run_demo)
bl=$(/verif/baseline.sh "$W/tree" | tail -1)
echo "demo clean rc=$r0, demo patched rc=$r1, suite: $bl"
case "$bl" in *"passed=109 testrunner_rc=0 ctest_rc=0"*) ok=1;; *) ok=0;; esac
if [ "$r0" = 0 ] && [ "$r1" != 0 ] && [ $ok = 1 ]; then echo CONFIRMED; exit 0; fi
echo "NOT CONFIRMED"; exit 1
