#!/bin/sh
# Run checks against a seeded change without touching /repo or /verif/evidence:
#   tools/seedtest.sh <patch.diff> <tier> <ID> [<ID> ...]
# Creates a scratch worktree of /repo's HEAD, applies the patch, runs the checks with VERIF_REPO pointing at it
# and evidence/replays redirected to a scratch directory, prints one line per check, removes everything.
PATCH=$(readlink -f "$1"); TIER=$2; shift 2
W=$(mktemp -d /tmp/vf-seed.XXXXXX) || exit 2
trap 'git -C /repo worktree remove --force "$W/tree" >/dev/null 2>&1; rm -rf "$W"' EXIT
git -C /repo worktree add -q --detach "$W/tree" HEAD || exit 2
git -C "$W/tree" apply "$PATCH" || { echo "patch does not apply"; exit 2; }
cd "$(dirname "$0")/.." || exit 2
for ID in "$@"; do
  VERIF_REPO="$W/tree" VERIF_OUT_DIR="$W/out" ./check "$ID" "$TIER" > "$W/$ID.log" 2>&1; rc=$?
  echo "$ID rc=$rc $(grep -c '^VIOLATION' "$W/$ID.log") violation key(s)"
  grep -A1 '^VIOLATION' "$W/$ID.log" | grep 'key=' | cut -c1-330 | head -${SEEDTEST_LINES:-4}
  [ $rc -eq 2 ] && tail -5 "$W/$ID.log"
done
