#!/bin/sh
# tools/seedmatrix.sh <tier> <seed-id>... : run every check against each seeded change; one line per (seed, check)
TIER=$1; shift
cd "$(dirname "$0")/.." || exit 2
for S in "$@"; do
  SEEDTEST_LINES=0 tools/seedtest.sh seeded/$S/patch.diff $TIER C01 C02 C03 C04 C05 C06 C07 C08 C09 C10 C11 C12 C13 C14 C15 C16 C17 C18 C19 C20 2>&1 | grep -E "^C[0-9]+ rc=" | sed "s/^/$S /"
done
