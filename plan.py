"""Per-property run plans: which monitors, in which build configurations, with which workload
sizes per tier, and the minimum observations below which a run is inconclusive (exit 2)."""

A_MODELS = ["the reference models (RFC 3986 automaton generated from the vendored ABNF; text-level splitter, recomposer, 5.2 resolver, 6.2.2 normaliser, codecs) are the trusted base; they were calibrated against the unchanged tree and cross-checked against inet_pton",
            "held on the executions observed only: inputs are generated (systematic enumerations plus seeded random workloads), capped at a few thousand characters, characters are code points 0..255 (plus sampled wchar_t values above U+00FF for parsing and, as probes of a recorded finding, for the escaper, the query composer and the file-name converters)"]
A_MEM = ["memory oracles are ASan+UBSan red zones, guard pages / exact-size blocks, canaries, the recording memory manager and (fast build) the --wrap libc interposer; red-zone tools miss non-adjacent and intra-object overflows"]

def R(mon, build, quick=None, thorough=None, require=None, **kw):
    d = dict(mon=mon, build=build, quick=quick or {}, thorough=thorough or {}, require=require or {})
    d.update(kw); return d

def parse_runs(q, t):
    return [R('parse', 'fast', dict(random=q, enum_len=4, enum_ip_len=5), dict(random=t, enum_len=5, enum_ip_len=7), dict(accepted=100000, rejected=100000, dfa_states_visited=183)),
            R('parse', 'asan', dict(random=q // 4, enum_len=3, enum_ip_len=4), dict(random=t // 4, enum_len=4, enum_ip_len=6), dict(accepted=100000, rejected=100000)),
            R('parse', 'gasan', thorough=dict(random=t // 8, enum_len=3, enum_ip_len=5), thorough_only=True)]

PARSE_RULE = ("every (context, byte) transition of the 2178-state RFC automaton from BFS and pumped access strings, all strings over the automaton's byte classes up to a length, "
              "IP-literal enumerations, degenerate component combinations, random automaton walks and structured URIs with mutations; each string through 8 entry-point variants (one of them: the range inside a longer buffer with a hostile continuation) x {char, wchar_t}; "
              "distinct = distinct input strings that are accepted, or rejected at a non-zero position")

PLANS = {}
PLANS['C01'] = dict(level='exploration', runs=parse_runs(3000000, 40000000), rule=PARSE_RULE, assumptions=A_MODELS)
PLANS['C02'] = dict(level='exploration', runs=parse_runs(3000000, 40000000) + [R('ip4', 'fast', dict(random=2000000, enum_len=7), dict(random=80000000, enum_len=8), dict(ip4_valid=10000, ip4_invalid=100000)), R('ip4', 'asan', dict(random=300000, enum_len=6), dict(random=12000000, enum_len=7))], rule=PARSE_RULE + "; C02 judges the structure of every accepted input against the text-level splitter (exact offsets, host kinds, address bytes, segment list, flags); uriParseIpFourAddress directly: all strings over 0-9 . x up to length 7 (quick) / 8 plus random dotted decimals", assumptions=A_MODELS)
PLANS['C03'] = dict(level='exploration',
    runs=[R('psplit', 'fast', dict(texts=300000), dict(texts=12000000), dict(embedded_outcome_identical=1000000, failed_parses_freed_repeatedly=10000)),
          R('psplit', 'asan', dict(texts=80000), dict(texts=3200000), dict(embedded_outcome_identical=300000)),
          R('parse', 'fast', dict(random=300000, enum_len=3, enum_ip_len=4), dict(random=40000000, enum_len=4, enum_ip_len=6), dict(rejected=100000)),
          R('parse', 'asan', dict(random=100000, enum_len=3, enum_ip_len=3), dict(random=12000000, enum_len=4, enum_ip_len=5), dict(rejected=50000))],
    rule="every prefix [0,i) of every generated text parsed as an exact copy flush against an inaccessible page (fast) or exact heap block (ASan), partly mapped read-only, and embedded in a larger buffer with 5 kinds of trailing content; outcomes compared; failing parses re-run under every allocation-failure index and freed 1..3 times; plus the parse monitor's guarded single-range runs with ledger after failure; distinct = distinct texts",
    assumptions=A_MODELS + A_MEM)
PLANS['C04'] = dict(level='exploration', runs=parse_runs(3000000, 40000000), rule=PARSE_RULE + "; C04 recomposes every accepted input, re-parses and compares (uriEqualsUri) a quarter of them and recomposes their owned copies", assumptions=A_MODELS)
PLANS['C05'] = dict(level='exploration',
    runs=[R('tostring', 'fast', dict(uris=150000), dict(uris=2400000), dict(objects_parsed=1000, objects_resolved=1000, objects_normalized=1000)),
          R('tostring', 'asan', dict(uris=60000), dict(uris=1200000))],
    rule="URI objects (parsed, owned, normalised, resolved, reference-created; all host kinds) x every capacity from -2 to length+3 (plus INT_MIN and a large one) x charsWritten NULL/non-NULL; destination with canaries on both sides or flush against a fence / exact heap block; distinct = distinct recomposed texts",
    assumptions=A_MODELS + A_MEM)
PLANS['C06'] = dict(level='exploration',
    runs=[R('resolve', 'fast', dict(random=2000000), dict(random=80000000), dict(branch_merge=10000, branch_abs_path=10000, branch_authority=10000, branch_scheme=10000, branch_empty_path=1000, relative_base=100)),
          R('resolve', 'asan', dict(random=400000), dict(random=16000000))],
    rule="systematic: 18 base shapes x 12 reference prefixes x all segment lists over {'', '.', '..', 'a', 'b:c', '%2e'} up to 4 segments; random: base-shape pool x structured references (dot heavy, same scheme, RFC 5.4 examples, mutated); AddBaseUri / Ex (strict, compat) / ExMm, char and wchar_t, borrowed and owned inputs; distinct = distinct (base, reference, option)",
    assumptions=A_MODELS)
PLANS['C07'] = dict(level='exploration',
    runs=[R('hist', 'fast', dict(histories=1200000), dict(histories=24000000), dict(objects_meaning_ok=100000)),
          R('hist', 'asan', dict(histories=300000), dict(histories=6000000))],
    rule="random histories of 3..12 steps over a pool of 8 objects: parse, make-owner, normalise(mask), resolve, create-reference, comparisons, free, with borrow tracking; every produced or modified object is recomposed, re-read by the automaton+splitter and compared with what it holds; distinct = distinct (operation, produced text)",
    assumptions=A_MODELS)
PLANS['C08'] = dict(level='exploration',
    runs=[R('norm', 'fast', dict(random=300000), dict(random=8000000), dict(mask_required_zero=1000, mask_required_nonzero=10000)),
          R('norm', 'asan', dict(random=60000), dict(random=2400000))],
    rule="systematic: 8 prefixes x all segment lists over 6 segment kinds up to 4 segments; random: structured URIs (dot heavy, relative, percent-triplets in both cases, upper-cased); all 64 masks for a sample and 8 masks (incl. undefined high bits) otherwise; borrowed and owned; default and custom manager; idempotence; mask-required sufficiency; distinct = distinct (input, mask, ownership)",
    assumptions=A_MODELS)
PLANS['C09'] = dict(level='exploration',
    runs=[R('normres', 'fast', dict(random=4000000), dict(random=40000000), dict(commutes=100000)),
          R('normres', 'asan', dict(random=600000), dict(random=8000000))],
    rule="systematic: 6 reference prefixes x 6 bases x all segment lists up to 4 segments; random: dot-heavy references without percent-encoded dot segments x base pool; both sentences of the property; distinct = distinct (reference, base)",
    assumptions=A_MODELS)
PLANS['C10'] = dict(level='exploration',
    runs=[R('shorten', 'fast', dict(random=3000000), dict(random=40000000), dict(round_trip_ok=100000, non_absolute_argument=100)),
          R('shorten', 'asan', dict(random=600000), dict(random=8000000))],
    rule="systematic: 4x4 authorities x rooted/rootless x all segment lists over {'', a, b, b:c} up to 3 segments for source and base (462k pairs); random: overlap patterns, authority variants, mutated bases; both modes, default and custom manager; round trip through the library's resolver and through the model; distinct = distinct (source, base, mode)",
    assumptions=A_MODELS)
PLANS['C11'] = dict(level='exploration',
    runs=[R('equals', 'fast', dict(families=200000), dict(families=2000000), dict(agree_equal=10000, agree_different=100000)),
          R('equals', 'asan', dict(families=50000), dict(families=400000)),
          R('hist', 'fast', dict(histories=400000), dict(histories=16000000), dict(equals_agree_equal=1000, equals_agree_different=1000)),
          R('resolve', 'fast', dict(random=200000), dict(random=8000000), dict(produced_equals_reparse=100000)),
          R('norm', 'fast', dict(random=20000), dict(random=1000000), dict(produced_equals_reparse=100000)),
          R('shorten', 'fast', dict(random=200000), dict(random=4000000), dict(produced_equals_reparse=100000))],
    rule="near-duplicate families (single-component edits, NULL vs empty, '/a' vs 'a', same IPv6 address spelled differently): all ordered pairs, reflexivity, symmetry, transitivity, NULL arguments, arguments unchanged; plus pairs of library-produced objects from random histories (equal <=> identical text, also against a re-parse); plus every result of the systematic resolution, normalisation and reference-creation enumerations against the parse of its own text, both ways round; distinct = distinct ordered pairs",
    assumptions=A_MODELS)
PLANS['C12'] = dict(level='exploration',
    runs=[R('owner', 'fast', dict(random=1000000), dict(random=12000000), dict(hostkind_1=1000, hostkind_2=500, hostkind_3=500, hostkind_4=300, paths_of_more_than_65535_segments=5)),
          R('owner', 'asan', dict(random=400000), dict(random=4000000)),
          R('hist', 'asan', dict(histories=150000), dict(histories=6000000), dict(ownership_transfers_checked=10000)),
          R('hist', 'fast', dict(histories=300000), dict(histories=12000000)),
          R('fault', 'fast', dict(inputs=100000), dict(inputs=1200000), dict(faulted_addbase=5000, faulted_removebase=5000)),
          R('tostring', 'fast', dict(uris=30000), dict(uris=600000), dict(argument_unchanged_after_recomposition=10000))],
    rule="URIs of all host kinds and component presence combinations; make-owner or normalise with any non-zero mask while the source text is mapped read-only; then the source is overwritten and unmapped / freed and the object read again; in histories non-owner results whose text lives in other objects are made owner and their lenders released; const arguments deep-snapshotted around every call; make-owner / normalise also with an injected allocation failure (source text read-only, caller text must not reach free, retry must leave an independent object); the allocation-failure enumerator over add-base / remove-base with the read-only inputs under a manager of their own (a release of one of their blocks is reported); the recomposition monitor with a deep byte snapshot of its argument around all size queries and writes; distinct = distinct (input, mask, operation)",
    assumptions=A_MODELS + A_MEM)
PLANS['C13'] = dict(level='exploration',
    runs=[R('hist', 'fast', dict(histories=500000), dict(histories=16000000), dict(ledger_requests=100000)),
          R('hist', 'asan', dict(histories=120000), dict(histories=4800000)),
          R('fault', 'fast', dict(inputs=150000), dict(inputs=2400000), dict(faulted_normalize=5000, faulted_addbase=5000)),
          R('mm', 'fast', dict(cases=60000), dict(cases=240000), dict(incomplete_manager_rejected=1000)),
          R('query', 'fast', dict(random=80000, split_len=5, huge=0), dict(random=2000000, split_len=7, huge=0))],
    rule="histories in which every object lives under one of three managers (two recording ledgers, the default allocator watched by a libc interposer); ledger checked at the end of every history, libc allocations during custom-manager calls counted; incomplete managers (each slot and pairs NULL) must be rejected before any slot is touched; query functions with a ledger; the allocation-failure enumerator of C14 with the interposer watching for C-library calls on the failure paths; distinct = distinct produced texts / manager shapes",
    assumptions=A_MODELS + A_MEM)
PLANS['C14'] = dict(level='fault_enumeration',
    runs=[R('fault', 'asan', dict(inputs=150000), dict(inputs=2400000), dict(faulted_parse=5000, faulted_addbase=5000, faulted_removebase=5000, faulted_normalize=5000, faulted_makeowner=5000, faulted_dissect=5000, faulted_compose=500)),
          R('fault', 'fast', dict(inputs=250000), dict(inputs=2400000))],
    rule="for each (call, input): the fault-free run yields N allocation requests; then every k=1..N is failed, in fail-once and fail-from-k-on modes, on fresh identical inputs; calls: parse, add-base (both options), remove-base (both modes), normalise (random mask, borrowed/owned), make-owner, dissect-query, compose-query-malloc; custom manager and (fast build) the default allocator through the libc interposer; distinct = distinct (call, input, options)",
    assumptions=A_MODELS + A_MEM)
PLANS['C15'] = dict(level='exploration',
    runs=[R('alloc', 'asan', dict(sequences=40000), dict(sequences=1500000), dict(backend_failures_injected=10000, overflowing_products=5000, zero_size_reallocs=5000, failed_reallocs_old_block_intact=5000)),
          R('alloc', 'fast', dict(sequences=40000), dict(sequences=3000000))],
    rule="random sequences (5..200 calls, <= 32 live blocks) of malloc/calloc/realloc/reallocarray/free on a manager completed from a malloc/free-only mock backend, sizes from {0,1,7,8,9,...,4097,65536, around 1 MiB, near SIZE_MAX}, backend failure injected at a random position; model: map of live blocks with byte patterns; backend log checked; distinct = distinct call traces",
    assumptions=A_MEM)
PLANS['C16'] = dict(level='exploration',
    runs=[R('escape', 'fast', dict(random=1000000, enum_len=4), dict(random=24000000, enum_len=5)),
          R('escape', 'asan', dict(random=300000, enum_len=4), dict(random=6000000, enum_len=4))],
    rule="all strings up to length 4 (quick) / 5 over {% 0 D A d a + SP x CR LF G 0xE4} plus random strings over 1..255 rich in %, CR, LF, +, truncated triplets; 2x2 escape flags x {Escape, EscapeEx}; 2x4 unescape options (+ uriUnescapeInPlace); output buffers exactly 3n+1 / 6n+1 flush against a fence / exact heap block; unescape buffers end at the terminator; distinct = distinct strings",
    assumptions=A_MODELS + A_MEM)
PLANS['C17'] = dict(level='exploration',
    runs=[R('query', 'fast', dict(random=250000, split_len=8, huge=5), dict(random=12000000, split_len=9, huge=6)),
          R('query', 'asan', dict(random=80000, split_len=7, huge=5), dict(random=2400000, split_len=8, huge=6), dict(huge_refused=1, huge_writer_small_buffer=4))],
    rule="all arrangements of & = a % up to length 7 (quick) / 9 through the splitter with all options; random lists of 0..8 (key, value|NULL) over 1..255: chars-required, every capacity -1..required+2 with canaries/fences, malloc variants (default / custom manager), dissect(compose(L)) round trip; one item with key = value = 200 MB / 360 MB string for the INT_MAX guards (UBSan watches the arithmetic); distinct = distinct lists / strings",
    assumptions=A_MODELS + A_MEM)
PLANS['C18'] = dict(level='exploration',
    runs=[R('file', 'fast', dict(names=5000000), dict(names=32000000), dict(form_unix_absolute=10000, form_unix_relative=10000, form_drive_absolute=10000, form_unc=10000, form_windows_relative=10000)),
          R('file', 'asan', dict(names=1500000), dict(names=8000000))],
    rule="random Unix filenames over 1..255 and Windows filenames with backslash separators only (drive-absolute, UNC with non-empty server, relative); to URI string into a buffer of exactly the documented size (fence / exact heap block), validity by the RFC automaton and by uriParseSingleUri, form per kind, back into a buffer of exactly the documented size, equality with the original; short input forms; distinct = distinct names",
    assumptions=A_MODELS + A_MEM)
PLANS['C19'] = dict(level='exploration',
    runs=[R('aw', 'asan', dict(cases=1200000), dict(cases=20000000), dict(agree_parse=10000, agree_ops=10000, agree_strings=10000)),
          R('aw', 'fast', dict(cases=2500000), dict(cases=32000000)),
          R('mm', 'fast', dict(cases=2000), dict(cases=2000), dict(giant_component_make_owner=4))],
    rule="each case runs the ...A function and, on the widened input, the ...W function back to back and compares return codes, error offsets, component offsets, host kinds and bytes, flags, recomposed text, chars-required/written, mask-required, resolve / create-reference / normalise / make-owner / equals results, escape / unescape offsets and text, query dissect / compose (counts, sizes, text), the four filename functions and uriParseIpFourAddress; wide buffers are exact-size in characters; distinct = distinct inputs; plus make-owner of a hand-filled component of 2^29+3 and 2^30+5 characters (address space only) in both APIs: the manager must be asked for exactly length * sizeof(character) bytes",
    assumptions=A_MODELS + A_MEM)
PLANS['C20'] = dict(level='exploration',
    runs=[R('threads', 'tsan', dict(rounds=32, iters=20000, _workers=4), dict(rounds=128, iters=40000, _workers=4), dict(overlapping_call_pairs_on_shared_object=1000)),
          R('threads', 'so', dict(rounds=32, iters=40000, _workers=4), dict(rounds=128, iters=80000, _workers=4), dict(overlapping_call_pairs_on_shared_object=1000, library_writable_bytes_protected=1, shared_input_bytes_read_only=1)),
          R('statics', 'so', dict(_workers=1), dict(_workers=1), dict(library_writable_bytes_protected=1, api_tour_calls=30))],
    rule="rounds with T in {2,4,8,16} threads, each making a random mix of all public calls on private outputs and shared read-only inputs (24 URIs borrowed/owned, query lists, strings), per-thread recording managers with injected yields/sleeps and the default allocator, staggered starts and shuffled CPU affinity; ThreadSanitizer build; results compared with single-thread results; shared inputs (URI structs, segment nodes, address blocks, texts, strings, query lists) live in one PROT_READ arena while the threads run, so any store into them faults whatever the schedule, and are deep-compared afterwards; in the shared-object build the library's writable segments are write-protected during the workload; the overlap matrix of call pairs observed on the same shared object is recorded; distinct = rounds and overlap counts",
    assumptions=["ThreadSanitizer reports races only on the interleavings that occurred; the schedule-independent part is the write protection of the library's .data/.bss and the comparison of shared inputs",
                 "the statement 'holds no writable global or static data' is decided as 'no store to library-owned static storage under write protection across a tour of the whole public API plus the threaded workload'; the symbol inventory (objdump) is reported"])


# thorough tier only: libFuzzer (coverage-guided) with the monitor's oracle inside the target
def _fuzz(mon, runs=6000000, max_len=100):
    return R(mon, 'fuzz', thorough=dict(runs=runs, max_len=max_len), thorough_only=True)
for _p, _m, _n, _l in (('C01', 'parse', 8000000, 80), ('C02', 'parse', 8000000, 80), ('C03', 'parse', 8000000, 80), ('C04', 'parse', 8000000, 80), ('C05', 'tostring', 3000000, 80),
                       ('C06', 'resolve', 8000000, 120), ('C08', 'norm', 2000000, 80), ('C09', 'normres', 6000000, 120), ('C10', 'shorten', 8000000, 120), ('C14', 'fault', 3000000, 100),
                       ('C16', 'escape', 6000000, 80), ('C17', 'query', 3000000, 80), ('C18', 'file', 8000000, 80)):
    PLANS[_p]['runs'].append(_fuzz(_m, _n, _l))
    PLANS[_p]['rule'] += "; thorough tier adds libFuzzer (coverage-guided, dictionary of URI tokens) with this monitor's oracle as the fuzz target"
