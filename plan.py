"""Per-property run plans: which monitors, in which build configurations, with which workload
sizes per tier, and the minimum observations below which a run is inconclusive."""

A_MODELS = ["reference models (RFC 3986 automaton generated from the vendored ABNF, splitter, recomposer) are the trusted base",
            "inputs are capped at ~2000 characters; characters are code points 0..255 plus sampled out-of-range wchar_t values"]

def parse_runs(quick_random, thorough_random):
    return [
        dict(mon='parse', build='fast', quick=dict(random=quick_random, enum_len=4, enum_ip_len=5), thorough=dict(random=thorough_random, enum_len=5, enum_ip_len=7),
             require=dict(accepted=100000, rejected=100000, dfa_states_visited=183)),
        dict(mon='parse', build='asan', quick=dict(random=quick_random // 4, enum_len=3, enum_ip_len=4), thorough=dict(random=thorough_random // 4, enum_len=4, enum_ip_len=6),
             require=dict(accepted=100000, rejected=100000)),
    ]

PLANS = {}
PLANS['C01'] = dict(level='exploration', runs=parse_runs(1200000, 40000000),
    rule="every (context, byte) transition of the 2178-state RFC automaton from BFS and pumped access strings, all strings over the automaton's byte classes up to a length, IP-literal enumerations, degenerate component combinations, and random automaton walks / structured URIs with mutations; each string through 7 entry-point variants x {char, wchar_t}; distinct = distinct input strings that are accepted or rejected at a non-zero position",
    assumptions=A_MODELS)
PLANS['C02'] = dict(level='exploration', runs=parse_runs(1200000, 40000000), rule=PLANS['C01']['rule'] + "; C02 judges the structure of every accepted input against the text-level splitter (offsets, kinds, address bytes cross-checked with inet_pton)", assumptions=A_MODELS)
PLANS['C04'] = dict(level='exploration', runs=parse_runs(1200000, 40000000), rule=PLANS['C01']['rule'] + "; C04 recomposes every accepted input, re-parses a quarter of them and compares owned copies", assumptions=A_MODELS)
