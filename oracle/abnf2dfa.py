#!/usr/bin/env python3
"""ABNF (RFC 3986 Appendix A) -> Thompson NFA -> DFA -> minimal DFA -> C header.

The oracle for C01/C02/C07/C17/C18.  Built from the vendored grammar text only
(oracle/rfc3986.abnf); nothing here looks at the library under test.

Usage: abnf2dfa.py <abnf> <out.h>
Emits, for each start rule in STARTS, a minimal DFA (dense table over byte
classes), and for URI-reference additionally the un-minimised subset-construction
DFA with one BFS access string and one shortest accepting completion per state
(workload contexts for G-COVER).
"""
import sys, re, collections

CORE = {
    'ALPHA':  [(0x41, 0x5A), (0x61, 0x7A)],
    'DIGIT':  [(0x30, 0x39)],
    'HEXDIG': [(0x30, 0x39), (0x41, 0x46), (0x61, 0x66)],
}

def strip_comments(text):
    out = []
    for line in text.splitlines():
        inq = False
        cut = len(line)
        for i, ch in enumerate(line):
            if ch == '"':
                inq = not inq
            elif ch == ';' and not inq:
                cut = i
                break
        out.append(line[:cut])
    return '\n'.join(out)

def parse_rules(text):
    text = strip_comments(text)
    rules = collections.OrderedDict()
    cur = None
    for line in text.splitlines():
        if not line.strip():
            continue
        m = re.match(r'^([A-Za-z][A-Za-z0-9-]*)\s*=\s*(.*)$', line)
        if m and not line[0].isspace():
            cur = m.group(1)
            rules[cur] = m.group(2)
        else:
            rules[cur] += ' ' + line.strip()
    return rules

TOK = re.compile(r'''\s*(?:
    (?P<str>"[^"]*") |
    (?P<num>%x[0-9A-Fa-f]+(?:-[0-9A-Fa-f]+)?) |
    (?P<rep>\d*\*\d*|\d+) |
    (?P<prose><[^>]*>) |
    (?P<name>[A-Za-z][A-Za-z0-9-]*) |
    (?P<op>[()\[\]/])
)''', re.X)

def tokenize(s):
    pos = 0
    toks = []
    s = s.rstrip()
    while pos < len(s):
        m = TOK.match(s, pos)
        if not m:
            raise ValueError('cannot tokenize: %r' % s[pos:])
        pos = m.end()
        toks.append((m.lastgroup, m.group(m.lastgroup)))
    return toks

# AST: ('alt',[..]) ('cat',[..]) ('rep',lo,hi,node) ('set',frozenset(bytes)) ('ref',name) ('eps',)
class P:
    def __init__(self, toks): self.t = toks; self.i = 0
    def peek(self): return self.t[self.i] if self.i < len(self.t) else (None, None)
    def take(self): x = self.t[self.i]; self.i += 1; return x
    def alt(self):
        items = [self.cat()]
        while self.peek() == ('op', '/'):
            self.take(); items.append(self.cat())
        return items[0] if len(items) == 1 else ('alt', items)
    def cat(self):
        items = []
        while True:
            k, v = self.peek()
            if k is None or (k == 'op' and v in ')]/'):
                break
            items.append(self.rep())
        if not items: return ('eps',)
        return items[0] if len(items) == 1 else ('cat', items)
    def rep(self):
        k, v = self.peek()
        lo, hi = 1, 1
        if k == 'rep':
            self.take()
            if '*' in v:
                a, b = v.split('*')
                lo = int(a) if a else 0
                hi = int(b) if b else None
            else:
                lo = hi = int(v)
        e = self.elem()
        if (lo, hi) == (1, 1): return e
        return ('rep', lo, hi, e)
    def elem(self):
        k, v = self.take()
        if k == 'str':
            s = v[1:-1]
            parts = []
            for ch in s:
                b = {ord(ch)}
                if ch.isalpha():           # ABNF literals are case-insensitive
                    b = {ord(ch.lower()), ord(ch.upper())}
                parts.append(('set', frozenset(b)))
            if not parts: return ('eps',)
            return parts[0] if len(parts) == 1 else ('cat', parts)
        if k == 'num':
            body = v[2:]
            if '-' in body:
                a, b = body.split('-'); return ('set', frozenset(range(int(a, 16), int(b, 16) + 1)))
            return ('set', frozenset([int(body, 16)]))
        if k == 'prose':
            return ('ref', v[1:-1])
        if k == 'name':
            return ('ref', v)
        if k == 'op' and v == '(':
            e = self.alt(); assert self.take() == ('op', ')'); return e
        if k == 'op' and v == '[':
            e = self.alt(); assert self.take() == ('op', ']'); return ('rep', 0, 1, e)
        raise ValueError('unexpected token %r' % (v,))

class NFA:
    def __init__(self):
        self.eps = []    # state -> list of states
        self.tr = []     # state -> list of (frozenset(bytes), state)
    def new(self):
        self.eps.append([]); self.tr.append([]); return len(self.eps) - 1

def build(nfa, node, asts):
    """returns (start, end)"""
    k = node[0]
    if k == 'eps':
        s = nfa.new(); return s, s
    if k == 'set':
        s, e = nfa.new(), nfa.new(); nfa.tr[s].append((node[1], e)); return s, e
    if k == 'ref':
        name = node[1]
        if name in CORE:
            b = set()
            for lo, hi in CORE[name]: b.update(range(lo, hi + 1))
            return build(nfa, ('set', frozenset(b)), asts)
        return build(nfa, asts[name], asts)
    if k == 'cat':
        s, e = build(nfa, node[1][0], asts)
        for sub in node[1][1:]:
            s2, e2 = build(nfa, sub, asts); nfa.eps[e].append(s2); e = e2
        return s, e
    if k == 'alt':
        s, e = nfa.new(), nfa.new()
        for sub in node[1]:
            s2, e2 = build(nfa, sub, asts); nfa.eps[s].append(s2); nfa.eps[e2].append(e)
        return s, e
    if k == 'rep':
        _, lo, hi, sub = node
        s = nfa.new(); e = s
        for _ in range(lo):
            s2, e2 = build(nfa, sub, asts); nfa.eps[e].append(s2); e = e2
        if hi is None:
            s2, e2 = build(nfa, sub, asts)
            nfa.eps[e].append(s2); nfa.eps[e2].append(s2)
            f = nfa.new(); nfa.eps[e].append(f); nfa.eps[e2].append(f); e = f
        else:
            f = nfa.new(); nfa.eps[e].append(f)
            for _ in range(hi - lo):
                s2, e2 = build(nfa, sub, asts); nfa.eps[e].append(s2); e = e2; nfa.eps[e].append(f)
            e = f
        return s, e
    raise ValueError(k)

def byte_classes(nfa):
    sig = [[] for _ in range(256)]
    sets = set()
    for trs in nfa.tr:
        for bs, _ in trs: sets.add(bs)
    for idx, bs in enumerate(sorted(sets, key=lambda x: sorted(x))):
        for b in bs: sig[b].append(idx)
    cls = {}; cmap = [0] * 256; reps = []
    # class 0 is reserved for "no transition at all"
    cls[()] = 0; reps.append(None)
    for b in range(256):
        key = tuple(sig[b])
        if key not in cls:
            cls[key] = len(cls); reps.append(b)
        cmap[b] = cls[key]
        if key == () and reps[0] is None: reps[0] = b
    return cmap, reps

def closure(nfa, states):
    st = list(states); seen = set(states)
    while st:
        s = st.pop()
        for t in nfa.eps[s]:
            if t not in seen: seen.add(t); st.append(t)
    return frozenset(seen)

def determinize(nfa, start, end, cmap, reps):
    ncls = len(reps)
    s0 = closure(nfa, [start])
    ids = {s0: 0}; order = [s0]; trans = []
    i = 0
    while i < len(order):
        cur = order[i]; i += 1
        row = [-1] * ncls
        for c in range(1, ncls):
            b = reps[c]
            tgt = set()
            for s in cur:
                for bs, t in nfa.tr[s]:
                    if b in bs: tgt.add(t)
            if not tgt: continue
            cl = closure(nfa, tgt)
            if cl not in ids:
                ids[cl] = len(order); order.append(cl)
            row[c] = ids[cl]
        trans.append(row)
    accept = [end in st for st in order]
    # explicit dead state
    dead = len(order)
    for row in trans:
        for c in range(ncls):
            if row[c] < 0: row[c] = dead
    trans.append([dead] * ncls); accept.append(False)
    return trans, accept, dead

def minimize(trans, accept):
    n = len(trans); ncls = len(trans[0])
    part = [1 if a else 0 for a in accept]
    while True:
        sigs = {}; newpart = [0] * n
        for s in range(n):
            key = (part[s],) + tuple(part[trans[s][c]] for c in range(ncls))
            if key not in sigs: sigs[key] = len(sigs)
            newpart[s] = sigs[key]
        if len(sigs) == len(set(part)):
            part = newpart; break
        part = newpart
    # renumber with start = block of state 0 -> 0, BFS order
    nb = len(set(part))
    rep_state = {}
    for s in range(n): rep_state.setdefault(part[s], s)
    order = []; idx = {}
    q = collections.deque([part[0]]); idx[part[0]] = 0; order.append(part[0])
    while q:
        b = q.popleft()
        for c in range(ncls):
            t = part[trans[rep_state[b]][c]]
            if t not in idx: idx[t] = len(order); order.append(t); q.append(t)
    mtrans = [[idx[part[trans[rep_state[b]][c]]] for c in range(ncls)] for b in order]
    maccept = [accept[rep_state[b]] for b in order]
    mapping = [idx[part[s]] if part[s] in idx else -1 for s in range(n)]
    return mtrans, maccept, mapping

def find_dead(trans, accept):
    # states from which no accepting state is reachable
    n = len(trans)
    rev = [[] for _ in range(n)]
    for s in range(n):
        for t in trans[s]: rev[t].append(s)
    live = set(i for i in range(n) if accept[i]); st = list(live)
    while st:
        s = st.pop()
        for p in rev[s]:
            if p not in live: live.add(p); st.append(p)
    return [s not in live for s in range(n)]

def bfs_access(trans, reps):
    n = len(trans); acc = [None] * n; acc[0] = b''
    q = collections.deque([0])
    while q:
        s = q.popleft()
        for c in range(1, len(reps)):
            t = trans[s][c]
            if acc[t] is None:
                acc[t] = acc[s] + bytes([reps[c]]); q.append(t)
    return acc

def completions(trans, accept, reps):
    n = len(trans); comp = [None] * n
    rev = [[] for _ in range(n)]
    for s in range(n):
        for c in range(1, len(reps)):
            rev[trans[s][c]].append((s, c))
    q = collections.deque()
    for s in range(n):
        if accept[s]: comp[s] = b''; q.append(s)
    while q:
        t = q.popleft()
        for s, c in rev[t]:
            if comp[s] is None:
                comp[s] = bytes([reps[c]]) + comp[t]; q.append(s)
    return comp

def cstr(b):
    if b is None: return '0'
    return '"' + ''.join('\\x%02x' % x for x in b) + '"'

def emit_dfa(out, name, trans, accept, deadflags, cmap):
    n = len(trans); ncls = len(trans[0])
    out.append('#define %s_NSTATES %d' % (name.upper(), n))
    out.append('#define %s_NCLASSES %d' % (name.upper(), ncls))
    out.append('static const unsigned char %s_class[256] = {%s};' % (name, ','.join(map(str, cmap))))
    out.append('static const unsigned short %s_trans[%d][%d] = {' % (name, n, ncls))
    for row in trans: out.append(' {%s},' % ','.join(map(str, row)))
    out.append('};')
    out.append('static const unsigned char %s_accept[%d] = {%s};' % (name, n, ','.join('1' if a else '0' for a in accept)))
    out.append('static const unsigned char %s_dead[%d] = {%s};' % (name, n, ','.join('1' if a else '0' for a in deadflags)))

def main():
    src, dst = sys.argv[1], sys.argv[2]
    rules = parse_rules(open(src).read())
    asts = {k: P(tokenize(v)).alt() for k, v in rules.items()}
    out = ['/* generated by oracle/abnf2dfa.py from %s -- do not edit */' % src.split('/')[-1],
           '#ifndef VF_DFA_H', '#define VF_DFA_H 1']
    stats = {}
    for rule, cname in (('URI-reference', 'uriref'), ('query', 'qry'), ('IPv4address', 'ip4'),
                        ('IP-literal', 'iplit'), ('URI', 'absuri')):
        nfa = NFA()
        s, e = build(nfa, ('ref', rule), asts)
        cmap, reps = byte_classes(nfa)
        trans, accept, dead = determinize(nfa, s, e, cmap, reps)
        mtrans, maccept, mapping = minimize(trans, accept)
        deadflags = find_dead(mtrans, maccept)
        assert sum(deadflags) == 1, (rule, sum(deadflags))
        emit_dfa(out, cname, mtrans, maccept, deadflags, cmap)
        out.append('static const unsigned char %s_reps[%d] = {%s};' % (cname, len(reps), ','.join(str(r if r is not None else 0) for r in reps)))
        stats[cname] = (len(nfa.eps), len(trans), len(mtrans), len(reps))
        if cname == 'uriref':
            mcomp = completions(mtrans, maccept, reps)
            out.append('static const char * const uriref_completion[%d] = {' % len(mtrans))
            for a in mcomp: out.append(' %s,' % cstr(a))
            out.append('};')
            out.append('static const unsigned short uriref_completion_len[%d] = {%s};' % (len(mtrans), ','.join(str(len(a)) if a is not None else '0' for a in mcomp)))
            bigdead = find_dead(trans, accept)
            acc = bfs_access(trans, reps)
            comp = completions(trans, accept, reps)
            out.append('#define URIREF_BIG_NSTATES %d' % len(trans))
            out.append('static const unsigned short uriref_big_trans[%d][%d] = {' % (len(trans), len(reps)))
            for row in trans: out.append(' {%s},' % ','.join(map(str, row)))
            out.append('};')
            out.append('static const unsigned char uriref_big_dead[%d] = {%s};' % (len(trans), ','.join('1' if a else '0' for a in bigdead)))
            out.append('static const unsigned short uriref_big_to_min[%d] = {%s};' % (len(trans), ','.join(map(str, mapping))))
            out.append('static const char * const uriref_big_access[%d] = {' % len(trans))
            for a in acc: out.append(' %s,' % cstr(a))
            out.append('};')
            out.append('static const unsigned short uriref_big_access_len[%d] = {%s};' % (len(trans), ','.join(str(len(a)) if a is not None else '0' for a in acc)))
            out.append('static const char * const uriref_big_completion[%d] = {' % len(trans))
            for a in comp: out.append(' %s,' % cstr(a))
            out.append('};')
            out.append('static const unsigned short uriref_big_completion_len[%d] = {%s};' % (len(trans), ','.join(str(len(a)) if a is not None else '0' for a in comp)))
    for k, (a, b, c, d) in stats.items():
        out.append('/* %s: nfa=%d dfa=%d min=%d classes=%d */' % (k, a, b, c, d))
    out.append('#endif')
    open(dst, 'w').write('\n'.join(out) + '\n')
    u = stats['uriref']
    print('uriref nfa=%d dfa=%d min=%d classes=%d' % u)
    if u[2] != 183:
        print('ERROR: minimal URI-reference DFA has %d states, expected 183' % u[2]); sys.exit(1)

if __name__ == '__main__':
    main()
