/* C18: wchar_t filenames with a character above U+00FF do not round-trip */
#include <uriparser/Uri.h>
#include <stdio.h>
#include <wchar.h>

static int check(const wchar_t * fn, int windows) {
	wchar_t uri[8 + 3 * 32 + 1];
	wchar_t back[8 + 3 * 32 + 1];
	size_t i;
	int r1, r2;
	r1 = windows ? uriWindowsFilenameToUriStringW(fn, uri)
			: uriUnixFilenameToUriStringW(fn, uri);
	r2 = windows ? uriUriStringToWindowsFilenameW(uri, back)
			: uriUriStringToUnixFilenameW(uri, back);
	printf("%s: r=%d,%d in =", windows ? "windows" : "unix", r1, r2);
	for (i = 0; fn[i]; i++) printf(" %04lX", (unsigned long)fn[i]);
	printf("\n  uri = %ls\n  out =", uri);
	for (i = 0; back[i]; i++) printf(" %04lX", (unsigned long)back[i]);
	printf("\n");
	if (wcscmp(fn, back) != 0) {
		printf("  -> ROUND TRIP FAILED\n");
		return 1;
	}
	return 0;
}

int main(void) {
	int bad = 0;
	static const wchar_t unixName[] = { L'/', L't', L'm', L'p', L'/', 0x20AC, L'.', L't', 0 };
	static const wchar_t winName[] = { L'C', L':', L'\\', 0x0416, L'.', L't', 0 };
	static const wchar_t uncName[] = { L'\\', L'\\', L's', L'\\', 0x0100, L'x', 0 };
	static const wchar_t relName[] = { L'a', L'/', 0x4E2D, 0 };
	bad += check(unixName, 0);
	bad += check(winName, 1);
	bad += check(uncName, 1);
	bad += check(relName, 0);
	printf("failures: %d\n", bad);
	return bad ? 1 : 0;
}
