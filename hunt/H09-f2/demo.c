/* C17: wchar_t query list does not round-trip through compose + dissect */
#include <uriparser/Uri.h>
#include <stdio.h>
#include <wchar.h>

int main(void) {
	static const wchar_t key[] = { L'k', 0x0142, 0 };      /* k, l-stroke */
	static const wchar_t val[] = { 0x0100, L'v', 0 };      /* A-macron, v */
	UriQueryListW item;
	UriQueryListW * out = NULL;
	wchar_t text[64];
	int required = -1, written = -1, count = -1, res, bad = 0;

	item.key = key; item.value = val; item.next = NULL;
	res = uriComposeQueryCharsRequiredExW(&item, &required, URI_FALSE, URI_FALSE);
	if (res != URI_SUCCESS || required + 1 > 64) return 2;
	res = uriComposeQueryExW(text, &item, required + 1, &written, URI_FALSE, URI_FALSE);
	if (res != URI_SUCCESS) return 2;
	printf("composed: %ls\n", text);
	res = uriDissectQueryMallocExW(&out, &count, text, text + wcslen(text),
			URI_FALSE, URI_BR_DONT_TOUCH);
	if (res != URI_SUCCESS || out == NULL || count != 1) return 2;

	printf("key  in: U+%04lX U+%04lX   out: U+%04lX U+%04lX\n",
			(unsigned long)key[0], (unsigned long)key[1],
			(unsigned long)out->key[0], (unsigned long)out->key[1]);
	printf("value in length %lu, out length %lu\n", (unsigned long)wcslen(val),
			(unsigned long)(out->value ? wcslen(out->value) : 0));
	if (wcscmp(out->key, key) != 0) { printf("VIOLATION: key differs\n"); bad = 1; }
	if (out->value == NULL || wcscmp(out->value, val) != 0) {
		printf("VIOLATION: value differs\n"); bad = 1;
	}
	uriFreeQueryListW(out);
	return bad;
}
