/* C18: the filename written for the short form "file:/x" (Windows) and
 * "file:c:/x" (Unix) exceeds the documented len(uriString) + 1 - 5 */
#include <uriparser/Uri.h>
#include <stdio.h>
#include <string.h>

#define CANARY 0x55

static int check(const char * uri, int windows) {
	char buf[64];
	const size_t documented = strlen(uri) + 1 - 5; /* absolute URI */
	size_t i, beyond = 0;
	int r;
	memset(buf, CANARY, sizeof(buf));
	r = windows ? uriUriStringToWindowsFilenameA(uri, buf)
			: uriUriStringToUnixFilenameA(uri, buf);
	for (i = documented; i < sizeof(buf); i++) {
		if (buf[i] != CANARY) beyond = i + 1 - documented;
	}
	printf("%s(\"%s\") = %d, documented size %lu, wrote \"%.40s\", %lu chars beyond\n",
			windows ? "ToWindowsFilename" : "ToUnixFilename", uri, r,
			(unsigned long)documented, beyond ? buf : "(ok)", (unsigned long)beyond);
	return beyond != 0;
}

int main(void) {
	int bad = 0;
	bad += check("file:/x", 1);        /* short form named by the property */
	bad += check("file:/c:/x", 1);     /* RFC 8089 appendix B form of c:\x */
	bad += check("file:c:/x", 0);      /* the other short form, Unix direction */
	/* controls: these fit */
	bad += check("file:/x", 0);
	bad += check("file:c:/x", 1);
	bad += check("file://srv/x%20y", 1);
	printf("overflows: %d\n", bad);
	return bad ? 1 : 0;
}
