/* C09: normalization changes what a reference identifies under non-strict resolution */
#include <uriparser/Uri.h>
#include <stdio.h>
#include <string.h>

static int resolve(const char *r, const char *b, int normFirst, char *out) {
	UriUriA R, B, A; const char *ep; int n;
	if (uriParseSingleUriA(&R, r, &ep) || uriParseSingleUriA(&B, b, &ep)) return -1;
	if (normFirst && uriNormalizeSyntaxA(&R)) return -2;
	if (uriAddBaseUriExA(&A, &R, &B, URI_RESOLVE_IDENTICAL_SCHEME_COMPAT)) return -3;
	if (uriNormalizeSyntaxA(&A)) return -4;
	if (uriToStringA(out, &A, 256, &n)) return -5;
	uriFreeUriMembersA(&A); uriFreeUriMembersA(&R); uriFreeUriMembersA(&B);
	return 0;
}

int main(void) {
	const char *R = "HTTP:a", *B = "http://h/x/y";
	char plain[256], normed[256];
	if (resolve(R, B, 0, plain) || resolve(R, B, 1, normed)) { printf("unexpected error\n"); return 2; }
	printf("R=%s B=%s (URI_RESOLVE_IDENTICAL_SCHEME_COMPAT)\n", R, B);
	printf("normalize(resolve(R,B))            = %s\n", plain);
	printf("normalize(resolve(normalize(R),B)) = %s\n", normed);
	if (strcmp(plain, normed)) { printf("VIOLATION: normalizing R changed what it identifies\n"); return 1; }
	return 0;
}
