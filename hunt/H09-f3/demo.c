/* C17: uriDissectQueryMalloc* truncates key/value lengths to int (wraps) */
#include <uriparser/Uri.h>
#include <stdio.h>
#include <stdlib.h>
#include <string.h>

#define PAD 16  /* canary bytes before every block handed to the library */
static size_t lastKeyRequest[8]; static int requests = 0; static int smashed = 0;

static void * mmMalloc(UriMemoryManager * m, size_t size) {
	unsigned char * raw; (void)m;
	if (size > ((size_t)1 << 40)) return NULL;
	raw = malloc(PAD + size + PAD);
	if (raw == NULL) return NULL;
	memset(raw, 0xC5, PAD);
	memcpy(raw, &size, sizeof(size));          /* remember size in first 8 bytes */
	if (requests < 8) lastKeyRequest[requests] = size;
	requests++;
	return raw + PAD;
}
static void mmFree(UriMemoryManager * m, void * p) {
	unsigned char * raw; int i; (void)m;
	if (p == NULL) return;
	raw = (unsigned char *)p - PAD;
	for (i = sizeof(size_t); i < PAD; i++) if (raw[i] != 0xC5) smashed = 1;
	free(raw);
}
static void * mmCalloc(UriMemoryManager * m, size_t n, size_t s) {
	void * p = mmMalloc(m, n * s); if (p) memset(p, 0, n * s); return p;
}
static void * mmRealloc(UriMemoryManager * m, void * p, size_t s) {
	(void)m; (void)p; (void)s; return NULL;     /* not used by dissect */
}
static void * mmReallocarray(UriMemoryManager * m, void * p, size_t n, size_t s) {
	(void)m; (void)p; (void)n; (void)s; return NULL;
}

int main(void) {
	const size_t big = ((size_t)1 << 32) + 3;  /* > INT_MAX, wraps to 3 as int */
	UriMemoryManager mm;
	UriQueryListA * list = NULL;
	int count = -1, res, bad = 0;
	char * text = malloc(big + 1);
	if (text == NULL) { printf("cannot allocate 4 GiB, not testable here\n"); return 0; }
	memset(text, 'a', big); text[big] = '\0';
	mm.malloc = mmMalloc; mm.calloc = mmCalloc; mm.realloc = mmRealloc;
	mm.reallocarray = mmReallocarray; mm.free = mmFree; mm.userData = NULL;

	/* case A: one key of 2^32+3 characters */
	res = uriDissectQueryMallocExMmA(&list, &count, text, text + big,
			URI_FALSE, URI_BR_DONT_TOUCH, &mm);
	printf("A: key of %lu chars: res=%d count=%d", (unsigned long)big, res, count);
	if (res == URI_SUCCESS && list != NULL) {
		size_t got = strlen(list->key);
		printf(" returned key length=%lu (key buffer requested: %lu bytes)\n",
				(unsigned long)got, (unsigned long)lastKeyRequest[1]);
		if (got != big) { printf("VIOLATION: length wrapped, key silently truncated\n"); bad = 1; }
		uriFreeQueryListMmA(list, &mm);
	} else printf(" (refused)\n");

	/* case B: one key of 2^32-1 characters: (int) length is -1 */
	requests = 0; list = NULL;
	res = uriDissectQueryMallocExMmA(&list, &count, text, text + (((size_t)1 << 32) - 1),
			URI_FALSE, URI_BR_DONT_TOUCH, &mm);
	printf("B: key of 2^32-1 chars: res=%d, key buffer requested: %lu bytes\n",
			res, (unsigned long)lastKeyRequest[1]);
	if (res == URI_SUCCESS) uriFreeQueryListMmA(list, &mm);
	if (smashed) { printf("VIOLATION: library wrote BEFORE its key buffer (key[-1] = 0)\n"); bad = 1; }
	else if (res == URI_SUCCESS) { printf("VIOLATION: accepted with wrapped length\n"); bad = 1; }
	free(text);
	return bad;
}
