/* C06: rootless merged path "a/..//c" comes out as absolute "/c" (neither RFC "//c" -> "/.//c" nor rootless) */
#include <stdio.h>
#include <string.h>
#include <uriparser/Uri.h>

static int check(const char *baseText, const char *refText, const char *rfcGuarded) {
	UriUriA base, ref, t;
	const char *errorPos;
	char text[64] = "";
	int bad = 0;
	if (uriParseSingleUriA(&base, baseText, &errorPos) || uriParseSingleUriA(&ref, refText, &errorPos)) {
		printf("unexpected parse failure\n");
		return 0;
	}
	if (uriAddBaseUriA(&t, &ref, &base) != URI_SUCCESS) {
		printf("unexpected resolution failure\n");
		return 0;
	}
	uriToStringA(text, &t, (int)sizeof(text), NULL);
	/* acceptable: the RFC 5.2.2 target with the '.' guard, or any path that is still rootless */
	if (strcmp(text, rfcGuarded) != 0 && t.absolutePath) {
		bad = 1;
	}
	printf("base <%s> ref <%s>: library <%s> absolutePath=%d, RFC 5.2.2 target (with '.' guard) <%s> -> %s\n",
			baseText, refText, text, t.absolutePath, rfcGuarded, bad ? "VIOLATION" : "ok");
	uriFreeUriMembersA(&t);
	uriFreeUriMembersA(&ref);
	uriFreeUriMembersA(&base);
	return bad;
}

int main(void) {
	int bad = 0;
	/* merge("a/b", "..//c") = "a/..//c"; remove_dot_segments gives "//c" */
	bad += check("s:a/b", "..//c", "s:/.//c");
	bad += check("s:", "a/..//c", "s:/.//c");
	/* reference with its own scheme: T.path = remove_dot_segments("a/..//c") */
	bad += check("s:x", "t:a/..//c", "t:/.//c");
	bad += check("s:a/b", "..///", "s:/.///");
	return bad ? 1 : 0;
}
