/* C19: uriMakeOwnerMmW computes the copy size of a text range in an int of BYTES; for a range of
 * 2^30+5 wide chars it asks the memory manager for 20 bytes, copies 20 bytes and reports success,
 * while uriMakeOwnerMmA asks for the full 2^30+5 bytes for the same text. */
#define _GNU_SOURCE
#include <stdio.h>
#include <stdlib.h>
#include <string.h>
#include <wchar.h>
#include <unistd.h>
#include <sys/mman.h>
#include <uriparser/Uri.h>

#define LEN ((size_t)1073741824 + 5) /* characters in the query component */
#define CHUNK ((size_t)1 << 20)      /* bytes of real backing store, mapped over and over */

static size_t lastReq; static int nReq;
static void *m_malloc(UriMemoryManager *m, size_t n) {
	(void)m; lastReq = n; nReq++;
	if (n > ((size_t)64 << 20)) return NULL; /* refuse huge requests: a correct library then reports URI_ERROR_MALLOC */
	return malloc(n ? n : 1);
}
static void *m_calloc(UriMemoryManager *m, size_t a, size_t b) { (void)m; return calloc(a, b); }
static void *m_realloc(UriMemoryManager *m, void *p, size_t n) { (void)m; return realloc(p, n); }
static void *m_reallocarray(UriMemoryManager *m, void *p, size_t a, size_t b) { (void)m; return realloc(p, a * b); }
static void m_free(UriMemoryManager *m, void *p) { (void)m; free(p); }
static UriMemoryManager mm = { m_malloc, m_calloc, m_realloc, m_reallocarray, m_free, NULL };

/* nbytes of address space that reads as the CHUNK-sized file repeated; costs 1 MiB of real memory */
static void *bigtext(int wide, size_t nbytes) {
	FILE *f = tmpfile(); size_t i, total = (nbytes + CHUNK - 1) / CHUNK * CHUNK; char *base;
	static char blk[4096];
	if (!f) return NULL;
	if (wide) { wchar_t *w = (wchar_t *)blk; for (i = 0; i < sizeof blk / sizeof *w; i++) w[i] = L'a'; }
	else memset(blk, 'a', sizeof blk);
	for (i = 0; i < CHUNK / sizeof blk; i++) if (fwrite(blk, sizeof blk, 1, f) != 1) return NULL;
	fflush(f);
	base = mmap(NULL, total, PROT_NONE, MAP_PRIVATE | MAP_ANONYMOUS | MAP_NORESERVE, -1, 0);
	if (base == MAP_FAILED) return NULL;
	for (i = 0; i < total; i += CHUNK)
		if (mmap(base + i, CHUNK, PROT_READ, MAP_SHARED | MAP_FIXED, fileno(f), 0) == MAP_FAILED) return NULL;
	return base;
}
int main(void) {
	const char *ta = bigtext(0, LEN * sizeof(char));
	const wchar_t *tw = bigtext(1, LEN * sizeof(wchar_t));
	UriUriA ua; UriUriW uw; int ra, rw, bad = 0; size_t reqA, reqW;
	if (!ta || !tw) { printf("cannot map test text, skipping\n"); return 0; }
	printf("query component: %lu times 'a' (same text for both APIs), uri.owner = URI_FALSE\n", (unsigned long)LEN);

	memset(&ua, 0, sizeof ua); ua.query.first = ta; ua.query.afterLast = ta + LEN;
	lastReq = 0; nReq = 0; ra = uriMakeOwnerMmA(&ua, &mm); reqA = lastReq;
	printf("uriMakeOwnerMmA: returned %d, asked the memory manager for %lu bytes (expected %lu)\n",
			ra, (unsigned long)reqA, (unsigned long)(LEN * sizeof(char)));

	memset(&uw, 0, sizeof uw); uw.query.first = tw; uw.query.afterLast = tw + LEN;
	lastReq = 0; nReq = 0; rw = uriMakeOwnerMmW(&uw, &mm); reqW = lastReq;
	printf("uriMakeOwnerMmW: returned %d, asked the memory manager for %lu bytes (expected %lu)\n",
			rw, (unsigned long)reqW, (unsigned long)(LEN * sizeof(wchar_t)));
	if (rw == URI_SUCCESS)
		printf("  wide result: owner=%d, query range claims %lu chars inside that %lu-byte block\n", uw.owner,
				(unsigned long)(uw.query.afterLast - uw.query.first), (unsigned long)reqW);
	if (ra != rw) { printf("VIOLATION: return codes differ (A=%d, W=%d)\n", ra, rw); bad = 1; }
	if (reqW != LEN * sizeof(wchar_t)) { printf("VIOLATION: wide copy sized in truncated bytes, buffer under-filled\n"); bad = 1; }
	if (reqA != LEN * sizeof(char)) { printf("VIOLATION: narrow copy mis-sized\n"); bad = 1; }
	if (ra == URI_SUCCESS) uriFreeUriMembersMmA(&ua, &mm);
	if (rw == URI_SUCCESS) uriFreeUriMembersMmW(&uw, &mm);
	if (!bad) printf("ok: both APIs sized the copy in characters and agree\n");
	return bad;
}
