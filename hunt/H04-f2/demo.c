/* C07: after uriNormalizeSyntaxExMmA fails (out of memory) on an owned URI, pathTail points to a freed node */
#include <stdio.h>
#include <stdlib.h>
#include <string.h>
#include <uriparser/Uri.h>

static int failNow = 0;
static void * mMalloc(UriMemoryManager * m, size_t n) { (void)m; return failNow ? NULL : malloc(n); }
static void * mCalloc(UriMemoryManager * m, size_t a, size_t b) { (void)m; return failNow ? NULL : calloc(a, b); }
static void * mRealloc(UriMemoryManager * m, void * p, size_t n) { (void)m; return failNow ? NULL : realloc(p, n); }
static void * mReallocarray(UriMemoryManager * m, void * p, size_t a, size_t b) { (void)m; return failNow ? NULL : realloc(p, a * b); }
static void mFree(UriMemoryManager * m, void * p) { (void)m; free(p); }

int main(void) {
	UriMemoryManager mm;
	UriUriA uri;
	const char * const text = "/a/b/..";
	const char * errorPos;
	const UriPathSegmentA * walker;
	const UriPathSegmentA * last = NULL;
	int res, segments = 0;
	mm.malloc = mMalloc; mm.calloc = mCalloc; mm.realloc = mRealloc;
	mm.reallocarray = mReallocarray; mm.free = mFree; mm.userData = NULL;

	if (uriParseSingleUriExMmA(&uri, text, text + strlen(text), &errorPos, &mm) || uriMakeOwnerMmA(&uri, &mm)) {
		printf("unexpected setup failure\n");
		return 0;
	}
	failNow = 1;
	res = uriNormalizeSyntaxExMmA(&uri, URI_NORMALIZE_PATH, &mm);
	failNow = 0;

	for (walker = uri.pathHead; walker != NULL; walker = walker->next) {
		last = walker;
		segments++;
	}
	printf("normalize returned %d (URI_ERROR_MALLOC is %d); path has %d node(s), last node %p, pathTail %p\n",
			res, URI_ERROR_MALLOC, segments, (void *)last, (void *)uri.pathTail);
	res = (uri.pathTail != last);
	if (res) {
		printf("VIOLATION: pathTail is not the last path node (it points to a node that was freed)\n");
	}
	uriFreeUriMembersMmA(&uri, &mm);
	return res ? 1 : 0;
}
