/* Blocks handed out by a manager completed from malloc/free are not aligned for
 * every object type that fits in them (the C allocator's blocks are). */
#include <uriparser/Uri.h>
#include <stdio.h>
#include <stdlib.h>
#include <stddef.h>

struct ProbeLd { char c; long double x; };
struct ProbeD  { char c; double x; };
struct ProbeP  { char c; void * x; };

static void * bMalloc(UriMemoryManager * m, size_t n) { (void)m; return malloc(n); }
static void bFree(UriMemoryManager * m, void * p) { (void)m; free(p); }

int main(void) {
	UriMemoryManager backend, mm;
	size_t need = offsetof(struct ProbeLd, x);
	size_t sizes[] = { 16, 32, 48, 64, 100, 1000 };
	size_t i;
	int misaligned = 0;
	if (offsetof(struct ProbeD, x) > need) { need = offsetof(struct ProbeD, x); }
	if (offsetof(struct ProbeP, x) > need) { need = offsetof(struct ProbeP, x); }

	backend.malloc = bMalloc; backend.free = bFree;
	backend.calloc = NULL; backend.realloc = NULL; backend.reallocarray = NULL;
	backend.userData = NULL;
	if (uriCompleteMemoryManager(&mm, &backend) != URI_SUCCESS) { return 2; }
	printf("strictest fundamental alignment here (long double): %lu\n",
			(unsigned long)need);

	for (i = 0; i < sizeof(sizes) / sizeof(sizes[0]); i++) {
		void * c = malloc(sizes[i]);
		void * p = mm.malloc(&mm, sizes[i]);
		void * q = mm.calloc(&mm, 1, sizes[i]);
		void * r = mm.realloc(&mm, NULL, sizes[i]);
		printf("size %4lu: libc %%%lu=%lu | completed malloc=%lu calloc=%lu realloc=%lu\n",
				(unsigned long)sizes[i], (unsigned long)need,
				(unsigned long)((size_t)c % need), (unsigned long)((size_t)p % need),
				(unsigned long)((size_t)q % need), (unsigned long)((size_t)r % need));
		if (((size_t)c % need) != 0) { printf("backend itself misaligned?!\n"); return 2; }
		if (((size_t)p % need) || ((size_t)q % need) || ((size_t)r % need)) {
			misaligned++;
		}
		free(c); mm.free(&mm, p); mm.free(&mm, q); mm.free(&mm, r);
	}
	if (misaligned) {
		printf("VIOLATION: blocks of >= sizeof(long double) bytes cannot hold a "
				"long double: address is backend pointer + sizeof(size_t)\n");
		return 1;
	}
	printf("ok\n");
	return 0;
}
