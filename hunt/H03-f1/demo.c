/* C05: uriToStringA overruns a 16-char buffer when written + charsToWrite wraps past INT_MAX */
#define _GNU_SOURCE
#include <stdio.h>
#include <stdlib.h>
#include <string.h>
#include <limits.h>
#include <signal.h>
#include <unistd.h>
#include <sys/mman.h>
#include <uriparser/Uri.h>

#define CAP 16
static char *dest;
static void onsegv(int sig) {
	static const char m[] = "SIGSEGV inside uriToStringA: it ran over the 16-char buffer into the guard page -> VIOLATION\n";
	(void)sig; if (write(1, m, sizeof m - 1)) {} _exit(1);
}
int main(void) {
	const size_t segLen = (size_t)INT_MAX - 1; /* 2 + segLen == INT_MAX + 1 */
	long pg = sysconf(_SC_PAGESIZE);
	char *text, *area; UriUriA u; UriPathSegmentA seg; int r, wr = -5, i, bad = 0;
	struct sigaction sa;
	/* 2 GiB of readable zero pages (no RAM is committed); a hand-built segment points at it */
	text = mmap(NULL, segLen + 2, PROT_READ, MAP_PRIVATE | MAP_ANONYMOUS | MAP_NORESERVE, -1, 0);
	area = mmap(NULL, 2 * pg, PROT_READ | PROT_WRITE, MAP_PRIVATE | MAP_ANONYMOUS, -1, 0);
	if (text == MAP_FAILED || area == MAP_FAILED) { printf("mmap failed, cannot run\n"); return 0; }
	mprotect(area + pg, pg, PROT_NONE);
	dest = area + pg - CAP; /* exactly CAP chars, then a guard page */
	memset(dest, '#', CAP);
	memset(&sa, 0, sizeof sa); sa.sa_handler = onsegv; sigaction(SIGSEGV, &sa, NULL); sigaction(SIGBUS, &sa, NULL);

	memset(&u, 0, sizeof u); memset(&seg, 0, sizeof seg);
	u.scheme.first = "a"; u.scheme.afterLast = u.scheme.first + 1;
	seg.text.first = text; seg.text.afterLast = text + segLen;
	u.pathHead = u.pathTail = &seg;
	printf("URI: scheme \"a\", one path segment of %lu chars (recomposed length %lu > INT_MAX)\n",
			(unsigned long)segLen, (unsigned long)segLen + 2);
	{ int req = 0; r = uriToStringCharsRequiredA(&u, &req);
	  printf("uriToStringCharsRequiredA: returned %d, charsRequired=%d (informational)\n", r, req); }
	printf("calling uriToStringA(dest, &uri, maxChars=%d, &written) ...\n", CAP);
	fflush(stdout);
	r = uriToStringA(dest, &u, CAP, &wr);
	printf("returned %d, written=%d, dest[0]=%d\n", r, wr, dest[0]);
	if (r != URI_ERROR_TOSTRING_TOO_LONG || wr != 0 || dest[0] != '\0') bad = 1;
	for (i = 1; i < CAP; i++) if (dest[i] != '#') { printf("dest[%d] was touched\n", i); break; }
	printf(bad ? "VIOLATION: capacity 16 is too small, expected URI_ERROR_TOSTRING_TOO_LONG, 0 written, empty string\n"
			: "ok: too-long code, zero written, empty string\n");
	return bad;
}
