/* C01: a long but perfectly valid URI reference is not parsed successfully:
 * the parser recurses once per input character and runs out of stack. */
#include <uriparser/Uri.h>
#include <stdio.h>
#include <stdlib.h>
#include <string.h>
#include <unistd.h>
#include <sys/wait.h>

static int try_one(const char *prefix, size_t n) {
	pid_t pid;
	int status = 0;
	fflush(stdout);
	pid = fork();
	if (pid == 0) {
		char *s = malloc(n + 1);
		UriUriA uri;
		const char *errorPos = NULL;
		int rc;
		memset(s, 'a', n);
		s[n] = '\0';
		memcpy(s, prefix, strlen(prefix));
		rc = uriParseSingleUriExA(&uri, s, s + n, &errorPos);
		if (rc == URI_SUCCESS) {
			uriFreeUriMembersA(&uri);
		}
		_exit(rc == URI_SUCCESS ? 0 : 2);
	}
	waitpid(pid, &status, 0);
	if (WIFEXITED(status) && WEXITSTATUS(status) == 0) {
		printf("prefix \"%s\" + %lu x 'a': parsed fine\n", prefix, (unsigned long)n);
		return 0;
	}
	if (WIFSIGNALED(status)) {
		printf("prefix \"%s\" + %lu x 'a': parser killed by signal %d (stack exhausted)\n",
				prefix, (unsigned long)n, WTERMSIG(status));
	} else {
		printf("prefix \"%s\" + %lu x 'a': parser process died / failed, exit status %d\n",
				prefix, (unsigned long)n, WEXITSTATUS(status));
	}
	return 1;
}

int main(void) {
	int bad = 0;
	/* all of these match RFC 3986 URI-reference */
	bad += try_one("", 4000000);          /* one relative path segment */
	bad += try_one("//", 4000000);        /* one registered name */
	bad += try_one("s:/p?", 4000000);     /* a query */
	if (bad) {
		printf("VIOLATION: valid URI references were not parsed successfully\n");
		return 1;
	}
	printf("ok\n");
	return 0;
}
