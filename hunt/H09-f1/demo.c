/* C16: uriEscapeW is lossy for wchar_t characters above 0xFF */
#include <uriparser/Uri.h>
#include <stdio.h>
#include <wchar.h>

int main(void) {
	static const wchar_t in[] = { 0x0141, 0x20AC, 0x0100, L'x', 0 }; /* L-stroke, euro, A-macron, x */
	wchar_t buf[3 * 4 + 1];
	wchar_t esc[3 * 4 + 1];
	size_t i;
	wchar_t * end = uriEscapeW(in, buf, URI_FALSE, URI_FALSE);
	if (end == NULL || *end != 0) { printf("unexpected return\n"); return 2; }
	wcscpy(esc, buf);
	uriUnescapeInPlaceExW(buf, URI_FALSE, URI_BR_DONT_TOUCH);

	printf("input    :");
	for (i = 0; in[i]; i++) printf(" U+%04lX", (unsigned long)in[i]);
	printf("\nescaped  : %ls\nunescaped:", esc);
	for (i = 0; buf[i]; i++) printf(" U+%04lX", (unsigned long)buf[i]);
	printf("  (length %lu, input length %lu)\n",
			(unsigned long)wcslen(buf), (unsigned long)wcslen(in));

	if (wcscmp(in, buf) != 0) {
		printf("VIOLATION: escape + unescape did not restore the original characters\n");
		return 1;
	}
	printf("ok\n");
	return 0;
}
