/* C08: full normalization does not lowercase an IPv6 literal host */
#include <uriparser/Uri.h>
#include <stdio.h>
#include <string.h>

int main(void) {
	const char *in = "HTTP://[::AB:C]/";
	UriUriA u; const char *ep; int bad = 0; const char *p; unsigned before, after;
	if (uriParseSingleUriA(&u, in, &ep)) return 2;
	before = uriNormalizeSyntaxMaskRequiredA(&u);
	if (uriNormalizeSyntaxA(&u)) return 2;
	after = uriNormalizeSyntaxMaskRequiredA(&u);
	printf("input %s\nafter uriNormalizeSyntaxA: scheme=%.*s hostText=%.*s\n", in,
			(int)(u.scheme.afterLast - u.scheme.first), u.scheme.first,
			(int)(u.hostText.afterLast - u.hostText.first), u.hostText.first);
	printf("mask required before=%u after=%u (URI_NORMALIZE_HOST=%u)\n", before, after, (unsigned)URI_NORMALIZE_HOST);
	for (p = u.hostText.first; p < u.hostText.afterLast; p++) if (*p >= 'A' && *p <= 'Z') bad = 1;
	uriFreeUriMembersA(&u);
	if (bad) { printf("VIOLATION: host still has upper case after full normalization\n"); return 1; }
	return 0;
}
