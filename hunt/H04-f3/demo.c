/* C07: failed normalization of owned "a/../b:c" leaves path "b:c", which reads back as scheme "b" */
#include <stdio.h>
#include <stdlib.h>
#include <string.h>
#include <uriparser/Uri.h>

static int failNow = 0;
static void * mMalloc(UriMemoryManager * m, size_t n) { (void)m; return failNow ? NULL : malloc(n); }
static void * mCalloc(UriMemoryManager * m, size_t a, size_t b) { (void)m; return failNow ? NULL : calloc(a, b); }
static void * mRealloc(UriMemoryManager * m, void * p, size_t n) { (void)m; return failNow ? NULL : realloc(p, n); }
static void * mReallocarray(UriMemoryManager * m, void * p, size_t a, size_t b) { (void)m; return failNow ? NULL : realloc(p, a * b); }
static void mFree(UriMemoryManager * m, void * p) { (void)m; free(p); }

int main(void) {
	UriMemoryManager mm;
	UriUriA uri, back;
	const char * const text = "a/../b:c";
	const char * errorPos;
	char out[32] = "";
	int res, bad = 0;
	mm.malloc = mMalloc; mm.calloc = mCalloc; mm.realloc = mRealloc;
	mm.reallocarray = mReallocarray; mm.free = mFree; mm.userData = NULL;

	if (uriParseSingleUriExMmA(&uri, text, text + strlen(text), &errorPos, &mm) || uriMakeOwnerMmA(&uri, &mm)) {
		printf("unexpected setup failure\n");
		return 0;
	}
	failNow = 1;
	res = uriNormalizeSyntaxExMmA(&uri, URI_NORMALIZE_PATH, &mm);
	failNow = 0;
	uriToStringA(out, &uri, (int)sizeof(out), NULL);
	printf("normalize returned %d (URI_ERROR_MALLOC is %d); object: scheme %s, first segment \"%.*s\"; text <%s>\n",
			res, URI_ERROR_MALLOC, uri.scheme.first ? "set" : "unset",
			uri.pathHead ? (int)(uri.pathHead->text.afterLast - uri.pathHead->text.first) : 0,
			uri.pathHead ? uri.pathHead->text.first : "", out);
	if (uriParseSingleUriExMmA(&back, out, out + strlen(out), &errorPos, &mm) != URI_SUCCESS) {
		printf("VIOLATION: text does not parse\n");
		bad = 1;
	} else {
		if ((back.scheme.first != NULL) != (uri.scheme.first != NULL)) {
			printf("VIOLATION: read back with scheme \"%.*s\" -- path content became a scheme\n",
					(int)(back.scheme.afterLast - back.scheme.first), back.scheme.first);
			bad = 1;
		}
		uriFreeUriMembersMmA(&back, &mm);
	}
	uriFreeUriMembersMmA(&uri, &mm);
	return bad;
}
