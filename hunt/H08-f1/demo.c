/* uriTestMemoryManager leaks a block when the manager's realloc / reallocarray
 * reports out-of-memory (returns NULL, old block intact -- legal behaviour). */
#include <uriparser/Uri.h>
#include <stdio.h>
#include <stdlib.h>

#define MAXB 64
static void * liveBlk[MAXB];
static int liveCount = 0;
static int failRealloc = 0;       /* fail the next N growing realloc calls */
static int failReallocarray = 0;

static void track(void * p) { if (p != NULL) { liveBlk[liveCount++] = p; } }
static void untrack(void * p) {
	int i;
	for (i = 0; i < liveCount; i++) {
		if (liveBlk[i] == p) { liveBlk[i] = liveBlk[--liveCount]; return; }
	}
	printf("free of unknown pointer %p\n", p);
	exit(3);
}
static void * mMalloc(UriMemoryManager * m, size_t n) {
	void * p = malloc(n ? n : 1); (void)m; track(p); return p;
}
static void * mCalloc(UriMemoryManager * m, size_t a, size_t b) {
	void * p = calloc(a * b ? a * b : 1, 1); (void)m; track(p); return p;
}
static void mFree(UriMemoryManager * m, void * p) {
	(void)m; if (p != NULL) { untrack(p); free(p); }
}
static void * mRealloc(UriMemoryManager * m, void * p, size_t n) {
	void * q;
	if (p == NULL) { return mMalloc(m, n); }
	if (n == 0) { mFree(m, p); return NULL; }
	if (failRealloc > 0) { failRealloc--; return NULL; } /* ENOMEM, p stays valid */
	q = realloc(p, n);
	if (q != NULL) { untrack(p); track(q); }
	return q;
}
static void * mReallocarray(UriMemoryManager * m, void * p, size_t a, size_t b) {
	if ((p != NULL) && (a * b != 0) && (failReallocarray > 0)) {
		failReallocarray--; return NULL;               /* ENOMEM, p stays valid */
	}
	return mRealloc(m, p, a * b);
}

int main(void) {
	UriMemoryManager mm;
	int res, leaked = 0;
	mm.malloc = mMalloc; mm.calloc = mCalloc; mm.realloc = mRealloc;
	mm.reallocarray = mReallocarray; mm.free = mFree; mm.userData = NULL;

	res = uriTestMemoryManager(&mm);
	printf("no failure:            res=%d outstanding=%d\n", res, liveCount);
	leaked += liveCount;

	failRealloc = 1;
	res = uriTestMemoryManager(&mm);
	printf("realloc fails once:    res=%d outstanding=%d\n", res, liveCount);
	leaked += liveCount; while (liveCount > 0) { free(liveBlk[--liveCount]); } failRealloc = 0;

	failReallocarray = 1;
	res = uriTestMemoryManager(&mm);
	printf("reallocarray fails:    res=%d outstanding=%d\n", res, liveCount);
	leaked += liveCount; while (liveCount > 0) { free(liveBlk[--liveCount]); }

	if (leaked != 0) {
		printf("VIOLATION: %d block(s) allocated by uriTestMemoryManager were never "
				"released and no release call exists for them\n", leaked);
		return 1;
	}
	printf("ok\n");
	return 0;
}
