/* C10: reference creation drops the authority although host kinds differ
 * (registered name "v1.a" versus IPvFuture literal "[v1.a]"). */
#include <stdio.h>
#include <string.h>
#include <uriparser/Uri.h>

int main(void) {
	const char * const sText = "s://v1.a/x";    /* host: reg-name v1.a */
	const char * const bText = "s://[v1.a]/y";  /* host: IPvFuture v1.a */
	UriUriA S, B, R, T;
	const char * errorPos;
	char rText[64], tText[64];
	int bad = 0;

	if (uriParseSingleUriA(&S, sText, &errorPos) != URI_SUCCESS) return 2;
	if (uriParseSingleUriA(&B, bText, &errorPos) != URI_SUCCESS) return 2;
	if (uriRemoveBaseUriA(&R, &S, &B, URI_FALSE) != URI_SUCCESS) return 2;
	if (uriToStringA(rText, &R, sizeof(rText), NULL) != URI_SUCCESS) return 2;
	if (uriAddBaseUriA(&T, &R, &B) != URI_SUCCESS) return 2;
	if (uriToStringA(tText, &T, sizeof(tText), NULL) != URI_SUCCESS) return 2;

	printf("S = %s\nB = %s\nreference = %s\nresolved  = %s\n",
			sText, bText, rText, tText);
	if (strcmp(tText, sText) != 0) {
		printf("VIOLATION: reference does not resolve back to S\n");
		bad = 1;
	}
	if (!uriEqualsUriA(&T, &S)) {
		printf("VIOLATION: uriEqualsUriA(resolved, S) is false\n");
		bad = 1;
	}
	uriFreeUriMembersA(&T);
	uriFreeUriMembersA(&R);
	uriFreeUriMembersA(&B);
	uriFreeUriMembersA(&S);
	return bad;
}
