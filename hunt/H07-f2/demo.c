/* C12: uriMakeOwnerMmW on a wchar_t URI whose query text is 2^30+1 characters
 * (still < INT_MAX characters) "copies" it into a 4-byte block. */
#include <uriparser/Uri.h>
#include <stdio.h>
#include <stdlib.h>
#include <string.h>
#include <sys/mman.h>

static size_t lastSize[8]; static void *lastPtr[8]; static int nreq;
static void *m_malloc(UriMemoryManager *m, size_t s) { void *p = malloc(s); (void)m;
	if (nreq < 8) { lastSize[nreq] = s; lastPtr[nreq] = p; } nreq++; return p; }
static void *m_calloc(UriMemoryManager *m, size_t n, size_t s) { (void)m; return calloc(n, s); }
static void *m_realloc(UriMemoryManager *m, void *p, size_t s) { (void)m; return realloc(p, s); }
static void *m_reallocarray(UriMemoryManager *m, void *p, size_t n, size_t s) { (void)m; return realloc(p, n * s); }
static void m_free(UriMemoryManager *m, void *p) { (void)m; free(p); }

int main(void) {
	UriMemoryManager mm = { m_malloc, m_calloc, m_realloc, m_reallocarray, m_free, NULL };
	const size_t len = ((size_t)1 << 30) + 1;           /* characters, fits an int */
	const size_t bytes = len * sizeof(wchar_t);         /* 4 GiB + 4 */
	static const wchar_t scheme[] = L"s";
	wchar_t *text; UriUriW uri; int res, i, violated = 0;

	if (sizeof(wchar_t) != 4 || sizeof(size_t) < 8) { printf("needs 4-byte wchar_t, 64-bit\n"); return 0; }
	text = mmap(NULL, bytes, PROT_READ | PROT_WRITE, MAP_PRIVATE | MAP_ANONYMOUS | MAP_NORESERVE, -1, 0);
	if (text == MAP_FAILED) { printf("cannot map 4 GiB, skipping\n"); return 0; }
	/* query text: "a", zeros..., "xyz" -- untouched pages stay unbacked */
	text[0] = L'a'; text[len - 3] = L'x'; text[len - 2] = L'y'; text[len - 1] = L'z';

	memset(&uri, 0, sizeof(uri));
	uri.scheme.first = scheme; uri.scheme.afterLast = scheme + 1;
	uri.query.first = text; uri.query.afterLast = text + len;
	uri.owner = URI_FALSE;

	res = uriMakeOwnerMmW(&uri, &mm);
	printf("uriMakeOwnerMmW returned %d, owner=%d, query length now %ld chars\n", res, uri.owner,
			(long)(uri.query.afterLast - uri.query.first));
	if (res == URI_SUCCESS) {
		for (i = 0; i < nreq && i < 8; i++) {
			if (lastPtr[i] == (void *)uri.query.first) {
				printf("block holding the query copy was requested with %lu bytes, text needs %lu bytes\n",
						(unsigned long)lastSize[i], (unsigned long)bytes);
				if (lastSize[i] < bytes) violated = 1;
			}
		}
		if (uri.query.first == text) { printf("query still points into the source\n"); violated = 1; }
		if (!violated) { /* safe to look at the copy */
			if ((size_t)(uri.query.afterLast - uri.query.first) != len || uri.query.first[0] != L'a'
					|| uri.query.first[len - 1] != L'z' || uri.query.first[len - 3] != L'x') violated = 1;
		}
	} else if (res != URI_ERROR_MALLOC) violated = 1;
	if (violated) printf("VIOLATION: the owned URI does not hold a copy of its query text (reading it overruns the block)\n");
	else printf("ok\n");
	uriFreeUriMembersMmW(&uri, &mm);
	munmap(text, bytes);
	return violated;
}
