/* C10: domain-root mode requested with a true UriBool other than 1 is
 * silently ignored: the reference gets a relative path. */
#include <stdio.h>
#include <uriparser/Uri.h>

static int run(UriBool domainRootMode) {
	UriUriA S, B, R;
	const char * errorPos;
	char rText[64];
	int bad = 0;
	if (uriParseSingleUriA(&S, "http://h/a/b/c", &errorPos) != URI_SUCCESS) return 2;
	if (uriParseSingleUriA(&B, "http://h/a/b/d", &errorPos) != URI_SUCCESS) return 2;
	if (uriRemoveBaseUriA(&R, &S, &B, domainRootMode) != URI_SUCCESS) return 2;
	if (uriToStringA(rText, &R, sizeof(rText), NULL) != URI_SUCCESS) return 2;
	printf("domainRootMode=%d -> reference \"%s\" (absolutePath=%d)\n",
			domainRootMode, rText, R.absolutePath);
	if (domainRootMode && (rText[0] != '/')) {
		printf("VIOLATION: domain-root mode, but the path is not absolute\n");
		bad = 1;
	}
	uriFreeUriMembersA(&R);
	uriFreeUriMembersA(&B);
	uriFreeUriMembersA(&S);
	return bad;
}

int main(void) {
	int bad = 0;
	bad |= run(URI_FALSE);  /* "c" expected */
	bad |= run(URI_TRUE);   /* "/a/b/c" expected */
	bad |= run(2);          /* true in C: "/a/b/c" expected, library gives "c" */
	bad |= run(-1);         /* likewise */
	return bad;
}
