/* C14: uriTestMemoryManager leaves a block outstanding when the manager's realloc / reallocarray
 * request fails (a failing realloc leaves the old block allocated; the function forgets it). */
#include <uriparser/Uri.h>
#include <stdio.h>
#include <stdlib.h>

#define MAXB 64
static void *blk[MAXB]; static int nblk, reqs, failAt, badFree;
static int fail(void) { return reqs++ == failAt; }
static void add(void *p) { if (p && nblk < MAXB) blk[nblk++] = p; }
static int del(void *p) { int i; for (i = 0; i < nblk; i++) if (blk[i] == p) { blk[i] = blk[--nblk]; return 1; } return 0; }
static void *m_malloc(UriMemoryManager *m, size_t s) { void *p; (void)m; if (fail()) return NULL; p = malloc(s ? s : 1); add(p); return p; }
static void *m_calloc(UriMemoryManager *m, size_t n, size_t s) { void *p; (void)m; if (fail()) return NULL; p = calloc(n ? n : 1, s ? s : 1); add(p); return p; }
static void m_free(UriMemoryManager *m, void *p) { (void)m; if (!p) return; if (!del(p)) { badFree++; return; } free(p); }
static void *m_realloc(UriMemoryManager *m, void *p, size_t s) { void *q;
	if (p == NULL) return m_malloc(m, s);
	if (s == 0) { m_free(m, p); return NULL; }
	if (fail()) return NULL;                 /* C semantics: old block stays valid */
	del(p); q = realloc(p, s); add(q); return q; }
static void *m_reallocarray(UriMemoryManager *m, void *p, size_t n, size_t s) { return m_realloc(m, p, n * s); }

int main(void) {
	UriMemoryManager mm = { m_malloc, m_calloc, m_realloc, m_reallocarray, m_free, NULL };
	int k, violations = 0;
	for (k = 0; k < 64; k++) {
		int rc, used;
		reqs = 0; failAt = k; nblk = 0; badFree = 0;
		rc = uriTestMemoryManager(&mm);
		used = reqs;
		if (used <= k) break; /* request k never happened: done */
		printf("request #%d fails: rc=%d (URI_ERROR_MALLOC=%d), blocks outstanding=%d, bad frees=%d\n",
				k, rc, URI_ERROR_MALLOC, nblk, badFree);
		if (nblk != 0 || badFree != 0) violations++;
		while (nblk) free(blk[--nblk]);
	}
	if (violations) printf("VIOLATION: %d failure indices leave a block outstanding\n", violations);
	else printf("ok\n");
	return violations ? 1 : 0;
}
