#!/bin/sh
# Runs the repository's own test suite with the verification guard OFF (no -DURIPARSER_VERIF), in a scratch
# build directory outside /repo and /verif, and prints one line per test case. Exit 0 iff all tests pass.
# Usage: baseline.sh [repo-dir]
REPO=${1:-/repo}
B=$(mktemp -d /tmp/vf-baseline.XXXXXX) || exit 2
trap 'rm -rf "$B"' EXIT
GT=""
[ -d /root/miniconda/lib/cmake/GTest ] && GT="-DGTest_DIR=/root/miniconda/lib/cmake/GTest"
cmake -G Ninja -S "$REPO" -B "$B" -DCMAKE_BUILD_TYPE=RelWithDebInfo -DURIPARSER_BUILD_DOCS=OFF -DURIPARSER_BUILD_TOOLS=OFF -DURIPARSER_BUILD_TESTS=ON \
      -DCMAKE_C_FLAGS=-Wno-error -DCMAKE_CXX_FLAGS=-Wno-error $GT > "$B/configure.log" 2>&1 || { cat "$B/configure.log"; echo "BASELINE: configure failed"; exit 2; }
cmake --build "$B" -j 16 > "$B/build.log" 2>&1 || { tail -50 "$B/build.log"; echo "BASELINE: build failed"; exit 2; }
"$B/testrunner" --gtest_output=xml:"$B/gtest.xml" > "$B/test.log" 2>&1
RC=$?
grep -E "^\[       OK \]|^\[  FAILED  \]" "$B/test.log" | sort -u
ctest --test-dir "$B" --timeout 900 > "$B/ctest.log" 2>&1; CRC=$?
tail -3 "$B/ctest.log"
PASSED=$(grep -c "^\[       OK \]" "$B/test.log")
echo "BASELINE: gtest cases passed=$PASSED testrunner_rc=$RC ctest_rc=$CRC"
[ $RC -eq 0 ] && [ $CRC -eq 0 ] && [ "$PASSED" -ge 109 ]
